#!/bin/bash
# usage: run_tests.sh <worktree dir>   -- the repository's test suite (compile-time static_assert tests), 39 tests
# exit 0 iff all pass
W=$1; T=$(mktemp -d); fail=0
for t in type_traits integral_type_convertions floating_point_type_convertions fixed_construction addition substraction multiplication division sqrt misc_functions sin tan atan; do
  printf '#include <fixedmath/unittests/%s.h>\nint main( int argc, char ** argv ) {return fixedmath::%s_unit_tests() ? 0 : 1; }\n' $t $t > $T/test_$t.cc
  for cfg in "c++17 -DFIXEDMATH_ENABLE_SQRT_ABACUS_ALGO" "c++20" "c++2b"; do
    set -- $cfg
    ( c++ -std=$1 $2 -I$W/fixed_lib/include $T/test_$t.cc -o $T/t_${t}_$1.o >/dev/null 2>$T/err_${t}_$1 || echo "FAILED ${t}_$1" ) &
  done
done
wait
if ls $T/err_* >/dev/null 2>&1; then for f in $T/err_*; do if [ -s $f ]; then echo "FAILED $(basename $f)"; fail=1; fi; done; fi
rm -rf $T
[ $fail = 0 ] && echo "ALL 39 TESTS PASSED"
exit $fail
