#!/bin/bash
# tools/benign.sh <patch> <check ids...> : apply a behaviour-preserving patch to /repo, run the repository tests and the checks, restore
P=$1; shift
P=$(readlink -f $P); cd /repo && git apply $P || exit 9
/verif/tools/run_tests.sh /repo | tail -1
cd /verif
for c in "$@"; do ./check $c --tier quick 2>&1 | grep "^VIOLATION\|^INCONC\|tier=" | cut -c1-200 | tail -4; done
git -C /repo checkout -- .
