#!/usr/bin/env python3
"""Confirm a seeded change delivered by a sub-agent and run the checks against it.

  tools/seed.py <name> <property id> <dir with patch.diff demo.cc NOTES.md> [check ids to run, default = the property]

1. scratch worktree of /repo HEAD under /tmp, demo built and run WITHOUT the patch (must exit 0)
2. patch applied there: library test suite (39 compile tests) must pass, demo must exit non-zero
3. patch, demo, notes copied to /verif/seeded/<name>/
4. patch applied to /repo, the listed checks run (quick tier), /repo restored with `git checkout -- .`
5. meta.json written
"""
import json, os, shutil, subprocess, sys, time

def sh(cmd, **kw):
    return subprocess.run(cmd, shell=True, stdout=subprocess.PIPE, stderr=subprocess.STDOUT, text=True, **kw)

name, pid, src = sys.argv[1], sys.argv[2], sys.argv[3]
checks = sys.argv[4:] or [pid]
dst = "/verif/seeded/%s" % name
os.makedirs(dst, exist_ok=True)
for f in ("patch.diff", "demo.cc", "NOTES.md"):
    if os.path.exists(os.path.join(src, f)):
        shutil.copy(os.path.join(src, f), os.path.join(dst, f))
wt = "/tmp/seedchk_%s" % name
sh("git -C /repo worktree remove --force %s" % wt)
r = sh("git -C /repo worktree add -q --detach %s HEAD" % wt)
meta = {"name": name, "property": pid, "checks_run": checks, "confirmed": {}}
need_cc = "fixed_math.cc" in open(os.path.join(dst, "demo.cc")).read()
build = "g++ -std=c++17 -I%s/fixed_lib/include -I%s %s/demo.cc -o %s/demo" % (wt, wt, dst, wt)
def demo():
    shutil.copy(os.path.join(dst, "demo.cc"), os.path.join(wt, "demo.cc"))   # some demos rebuild themselves with another compiler
    b = sh(build)
    if b.returncode != 0:
        return "build failed: " + b.stdout[-400:]
    q = sh("FIXEDMATH_ROOT=%s %s/demo" % (wt, wt), timeout=600)
    return q.returncode
meta["confirmed"]["demo_exit_unchanged"] = demo()
a = sh("git -C %s apply %s/patch.diff" % (wt, dst))
meta["confirmed"]["patch_applies"] = a.returncode == 0
t = sh("/verif/tools/run_tests.sh %s" % wt)
meta["confirmed"]["tests"] = t.stdout.strip().split("\n")[-1]
meta["confirmed"]["demo_exit_patched"] = demo()
sh("git -C /repo worktree remove --force %s" % wt)
ok = (meta["confirmed"]["demo_exit_unchanged"] == 0 and meta["confirmed"]["patch_applies"]
      and "ALL 39 TESTS PASSED" in meta["confirmed"]["tests"] and meta["confirmed"]["demo_exit_patched"] not in (0,)
      and isinstance(meta["confirmed"]["demo_exit_patched"], int))
meta["kept"] = ok
meta["detected_by"] = {}
if ok:
    st = sh("git -C /repo status --porcelain --untracked-files=no")
    if st.stdout.strip():
        print("REFUSING: /repo has uncommitted changes"); sys.exit(3)
    ap = sh("git -C /repo apply %s/patch.diff" % dst)
    try:
        for cspec in checks:
            c, _, tier = cspec.partition("@")
            tier = tier or "quick"
            t0 = time.time()
            r = sh("cd /verif && ./check %s --tier %s" % (c, tier), timeout=4 * 3600)
            c = cspec
            lines = [l for l in r.stdout.split("\n") if l.startswith(("VIOLATION", "INCONCLUSIVE", "KNOWN-FINDING", c.split("@")[0]))]
            meta["detected_by"][c] = {"exit": r.returncode, "wall_s": round(time.time() - t0, 1),
                                      "violations": [l for l in lines if l.startswith("VIOLATION")][:10],
                                      "inconclusive": [l[:200] for l in lines if l.startswith("INCONCLUSIVE")][:6],
                                      "summary": lines[-1] if lines else ""}
            open(os.path.join(dst, "check_%s.log" % c.replace("@", "_")), "w").write(r.stdout[-20000:])
    finally:
        sh("git -C /repo checkout -- .")
    # evidence files were rewritten by the runs above against the patched tree: regenerate them on the clean tree later
notes = open(os.path.join(dst, "NOTES.md")).read() if os.path.exists(os.path.join(dst, "NOTES.md")) else ""
meta["needs_to_manifest"] = notes[:1500]
meta["what_was_run"] = ["scratch worktree %s (removed)" % wt, build, "/verif/tools/run_tests.sh", "git -C /repo apply; ./check <id> --tier quick; git -C /repo checkout -- ."]
json.dump(meta, open(os.path.join(dst, "meta.json"), "w"), indent=1)
print(json.dumps({k: meta[k] for k in ("name", "property", "confirmed", "kept")}, indent=1))
for c, d in meta["detected_by"].items():
    print(c, "exit", d["exit"], d["wall_s"], "s", d["violations"][:2], d["inconclusive"][:2])
