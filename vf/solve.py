"""SMT portfolio: each obligation is exported as SMT-LIB2 text and raced on several solver processes.

first definite answer wins; `(error` in any output makes that solver's answer inconclusive; a sat/unsat
disagreement between two solvers that both answered is reported as DISAGREE (exit 2 upstream).
"""
import os
import re
import subprocess
import tempfile
import time
import threading
import resource
import shutil
from concurrent.futures import ThreadPoolExecutor
import z3

Z3NEW = shutil.which("z3-new") or "z3"
Z3OLD = "/usr/bin/z3"
CVC5 = shutil.which("cvc5") or "cvc5"

MEM_LIMIT = 8 << 30

SOLVERS = {
    "z3": lambda f, t: [Z3NEW, "-T:%d" % max(1, int(t)), f],
    "z3old": lambda f, t: [Z3OLD, "-T:%d" % max(1, int(t)), f],
    "cvc5": lambda f, t: [CVC5, "--tlimit=%d" % int(t * 1000), "--produce-models", f],
    "cvc5int": lambda f, t: [CVC5, "--tlimit=%d" % int(t * 1000), "--produce-models", "--solve-bv-as-int=sum", f],
}


def _limits():
    try:
        resource.setrlimit(resource.RLIMIT_AS, (MEM_LIMIT, MEM_LIMIT))
    except Exception:
        pass
    os.setsid()


class Query:
    def __init__(self, name, asserts, inputs=(), portfolio=("z3", "cvc5"), timeout=60, logic=None, meta=None):
        self.name, self.asserts, self.inputs = name, list(asserts), list(inputs)
        self.portfolio, self.timeout, self.logic, self.meta = tuple(portfolio), timeout, logic, meta or {}
        self.smt2 = None

    def render(self):
        s = z3.Solver()
        for a in self.asserts:
            s.add(a)
        body = s.to_smt2()
        body = body.replace("(check-sat)\n", "")
        # z3 prints its internal "divisor known to be non-zero" operators; they coincide with the standard ones there
        for op in ("bvsdiv", "bvudiv", "bvsrem", "bvurem", "bvsmod"):
            body = body.replace("(%s_i " % op, "(%s " % op)
        # inputs that do not occur in the formula are still declared, so that get-value can name them
        extra = ""
        for c in self.inputs:
            n = sym(c)
            if ("(declare-fun %s " % n) not in body and ("(declare-const %s " % n) not in body:
                extra += "(declare-fun %s () %s)\n" % (n, c.sort().sexpr())
        body = body + extra
        tail = "(check-sat)\n"
        if self.inputs:
            tail += "(get-value (%s))\n" % " ".join(sym(c) for c in self.inputs)
        self.smt2 = body + tail
        return self.smt2


def sym(c):
    n = c.decl().name()
    if re.fullmatch(r"[A-Za-z_~!@$%^&*+=<>.?/-][A-Za-z0-9_~!@$%^&*+=<>.?/-]*", n):
        return n
    return "|%s|" % n


class Outcome:
    def __init__(self, status, model=None, solver=None, t=0.0, detail="", all_answers=None):
        self.status, self.model, self.solver, self.t, self.detail = status, model or {}, solver, t, detail
        self.all_answers = all_answers or {}

    def __repr__(self):
        return "%s by %s in %.2fs" % (self.status, self.solver, self.t)


VAL = re.compile(r"\(\s*(\|[^|]*\||[^\s()]+)\s+(#x[0-9a-fA-F]+|#b[01]+|\(_ bv(\d+) (\d+)\))\s*\)")


def parse_model(txt):
    m = {}
    for g in VAL.finditer(txt):
        name = g.group(1).strip("|")
        v = g.group(2)
        if v.startswith("#x"):
            m[name] = int(v[2:], 16)
        elif v.startswith("#b"):
            m[name] = int(v[2:], 2)
        else:
            m[name] = int(g.group(3))
    for g in IVAL.finditer(txt):
        name = g.group(1).strip("|")
        if name not in m:
            m[name] = -int(g.group(3)) if g.group(3) else int(g.group(2))
    return m


IVAL = re.compile(r"\(\s*(\|[^|]*\||[^\s()]+)\s+(?:(\d+)|\(-\s+(\d+)\))\s*\)")


def run_one(q, workdir, race=True):
    """race the portfolio on one query"""
    if q.smt2 is None:
        q.render()
    t0 = time.time()
    procs = {}
    files = []
    for sname in q.portfolio:
        fd, path = tempfile.mkstemp(suffix=".smt2", prefix="q_", dir=workdir)
        head = ""
        if sname.startswith("cvc5"):
            head = "(set-logic %s)\n" % (q.logic or "ALL")
        with os.fdopen(fd, "w") as fh:
            fh.write(head + q.smt2)
        files.append(path)
        cmd = SOLVERS[sname](path, q.timeout)
        try:
            procs[sname] = subprocess.Popen(cmd, stdout=subprocess.PIPE, stderr=subprocess.PIPE, text=True,
                                            preexec_fn=_limits)
        except OSError as e:
            pass
    answers = {}
    winner = None
    deadline = t0 + q.timeout + 5
    pending = dict(procs)
    outs = {}
    while pending and time.time() < deadline:
        for sname, p in list(pending.items()):
            rc = p.poll()
            if rc is None:
                continue
            out, err = p.communicate()
            del pending[sname]
            outs[sname] = out
            first = out.strip().split("\n")[0].strip() if out.strip() else ""
            if "(error" in out and first not in ("unsat",):
                # an error anywhere before/with a sat answer makes it unusable; for unsat nothing follows check-sat
                # except get-value's error on unsat, which is expected
                answers[sname] = "error"
                continue
            if first == "unsat":
                # z3 prints an error for get-value after unsat: expected. any *other* error line earlier = inconclusive
                pre = out.split("unsat")[0]
                answers[sname] = "error" if "(error" in pre else "unsat"
            elif first == "sat":
                answers[sname] = "sat"
            else:
                answers[sname] = "unknown"
            if answers[sname] in ("sat", "unsat") and winner is None:
                winner = sname
                if race:
                    for s2, p2 in pending.items():
                        kill(p2)
                    pending = {}
                    break
        if pending:
            time.sleep(0.01)
    for s2, p2 in pending.items():
        kill(p2)
    for path in files:
        try:
            os.unlink(path)
        except OSError:
            pass
    dt = time.time() - t0
    definite = {s: a for s, a in answers.items() if a in ("sat", "unsat")}
    if len(set(definite.values())) > 1:
        return Outcome("DISAGREE", t=dt, detail=repr(answers), all_answers=answers)
    if winner is None:
        st = "timeout" if not answers or all(a == "unknown" for a in answers.values()) else "unknown"
        return Outcome(st, t=dt, detail=repr(answers), all_answers=answers)
    model = parse_model(outs[winner]) if answers[winner] == "sat" else {}
    return Outcome(answers[winner], model=model, solver=winner, t=dt, all_answers=answers)


def kill(p):
    try:
        os.killpg(p.pid, 9)
    except Exception:
        try:
            p.kill()
        except Exception:
            pass
    try:
        p.communicate(timeout=1)
    except Exception:
        pass


def solve_all(queries, workdir, workers=None, progress=None, race=True):
    """run all queries; every solver process of a portfolio takes one CPU slot, so single-solver queries do not leave
    half of the machine idle when other queries race two or three solvers"""
    os.makedirs(workdir, exist_ok=True)
    for q in queries:
        if q.smt2 is None:
            q.render()
    if not queries:
        return []
    slots = workers or (os.cpu_count() or 4)
    cond = threading.Condition()
    free = [slots]
    results = [None] * len(queries)

    def job(i):
        need = min(len(queries[i].portfolio), slots)
        with cond:
            while free[0] < need:
                cond.wait()
            free[0] -= need
        try:
            results[i] = run_one(queries[i], workdir, race=race)
        finally:
            with cond:
                free[0] += need
                cond.notify_all()
        if progress:
            progress(i, results[i])

    with ThreadPoolExecutor(max_workers=slots) as ex:
        list(ex.map(job, range(len(queries))))
    return results
