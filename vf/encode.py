"""Symbolic execution of parsed LLVM IR into z3 terms.

One call to `encode(mod, fname, args, opts)` executes the whole function for *all* inputs at once:
the CFG is unrolled at its natural loops (bound `opts.unroll`, with an unwinding condition that the
caller must prove unsatisfiable), nodes are visited in topological order, and at every join the
environments of the incoming edges are merged with `ite` on the edge conditions.  The function result
is therefore one term over the symbolic arguments; every operation that the C++ abstract machine
leaves undefined contributes a (site, condition) pair to `res.ub`.

Integer semantics are bit-precise (QF_BV).  Floating point is either SMT FloatingPoint on bit patterns
(fp_mode='bits') or the real-arithmetic abstraction with explicit rounding-error variables
(fp_mode='real', see FpReal).  Symbolic products / quotients can be replaced by uninterpreted
functions (opts.mul_uf) or defined by specification (opts.div_spec); both are documented at the call
sites in the property modules and reported in the evidence.
"""
import itertools
import z3
from .llparse import (IntTy, FpTy, PtrTy, ArrTy, StructTy, NamedTy, VoidTy, Unsupported, Op)

RNE = z3.RNE()
RTZ = z3.RTZ()


class Ptr:
    __slots__ = ("base", "off")

    def __init__(self, base, off):
        self.base, self.off = base, off


class Fp80:
    """constant of type x86_fp80 (only literals occur)"""
    __slots__ = ("bits",)

    def __init__(self, bits):
        self.bits = bits

    def fraction(self):
        from fractions import Fraction
        sign = (self.bits >> 79) & 1
        e = (self.bits >> 64) & 0x7FFF
        m = self.bits & ((1 << 64) - 1)
        if e == 0x7FFF:
            raise Unsupported("x86_fp80 inf/nan literal")
        v = Fraction(m, 1 << 63) * (Fraction(2) ** (e - 16383 if e else -16382))
        return -v if sign else v

    def eq(self, o):
        return isinstance(o, Fp80) and o.bits == self.bits


class RealFp:
    """value of an FP operation in fp_mode='real': a z3 Real term plus knowledge 'kind' of format"""
    __slots__ = ("r", "kind")

    def __init__(self, r, kind):
        self.r, self.kind = r, kind


class Opts:
    def __init__(self, **kw):
        self.unroll = 1            # iterations of each loop that are executed
        self.stubs = {}            # callee -> fn(ctx, args) -> value
        self.wide_mul = False      # mul as low half of one 2n-bit product term (shared with oracles)
        self.mul_uf = False        # symbolic*symbolic products as MULW<2w>(ext a, ext b), an uninterpreted function
        self.int_nowrap = False    # INT mode: unflagged add/sub/mul do not wrap; wrap-around is a side condition to refute
        self.clz_const = None      # INT mode: ctlz returns this constant; class membership is a side condition to refute
        self.loop_cut = None       # callable(header, init phi values, env) -> symbolic phi values (cut at the loop head)
        self.int_mode = False      # mathematical-integer semantics (IntExec): wrap explicit only where no nsw/nuw
        self.mul_ovf = "exact"     # 'exact' | 'bits' (multiplier-free sufficient condition for no signed overflow)
        self.div_spec = False      # sdiv/srem by specification with fresh quotient/remainder
        self.div_uf = None         # None | (sdivF, sremF)
        self.clz_uf = False        # count-leading-zeros as an uninterpreted function (relational obligations only)
        self.div_uf_all = False    # abstract divisions by constants too (relational obligations)
        self.fma = "fused"         # llvm.fmuladd: 'fused' | 'unfused'
        self.fp_mode = "bits"      # 'bits' | 'real'
        self.machine = False       # optimiser-output semantics: no UB sites, flags ignored, shifts masked? (no)
        self.prefix = ""           # name prefix for fresh symbols
        self.track_ub = True
        self.facts = ()            # domain facts (z3 Bools) the caller assumes anyway: used ONLY to prune branches whose condition
        #                            they decide (a solver check on the condition alone); the caller must assert them in its query
        self.__dict__.update(kw)


class Result:
    def __init__(self):
        self.ret = None
        self.ret_cond = z3.BoolVal(False)
        self.ub = []               # (kind, instr text, cond)
        self.unwind = z3.BoolVal(False)
        self.assumes = []          # side constraints defining fresh symbols (always satisfiable by construction)
        self.fresh = []
        self.loops = 0
        self.nodes = 0
        self.instrs = 0
        self.calls = []            # (callee, args, result) for stubbed calls
        self.blocks_reached = set()
        self.loop_init = None      # loop cut: phi values on entry
        self.loop_state = None
        self.loop_next = []        # [(cond of taking the back edge, {phi: next value})]

    def ub_any(self):
        return z3.Or([c for _, _, c in self.ub]) if self.ub else z3.BoolVal(False)


def bv(w, v):
    return z3.BitVecVal(v, w)


def is_true(e):
    return z3.is_true(e)


def is_false(e):
    return z3.is_false(e)


def simp(e):
    return z3.simplify(e)


def b2bv(b):
    return z3.If(b, bv(1, 1), bv(1, 0))


def bv2b(x):
    return x == bv(1, 1)


class IV:
    """integer-mode value: mathematical (signed) value of a w-bit LLVM integer as a z3 Int term (i1: 0/1)"""
    __slots__ = ("t", "w")

    def __init__(self, t, w):
        self.t, self.w = t, w

    def size(self):
        return self.w


def truth(v):
    return (v.t != 0) if isinstance(v, IV) else bv2b(v)


def ite_val(c, a, b):
    if isinstance(a, IV):
        if a.t.eq(b.t):
            return a
        return IV(z3.If(c, a.t, b.t), a.w)
    if isinstance(a, Ptr):
        if not isinstance(b, Ptr) or a.base != b.base:
            raise Unsupported("merge of pointers into different objects")
        if a.off is b.off or a.off.eq(b.off):
            return a
        return Ptr(a.base, z3.If(c, a.off, b.off))
    if isinstance(a, tuple):
        return tuple(ite_val(c, x, y) for x, y in zip(a, b))
    if isinstance(a, RealFp):
        if a.r.eq(b.r):
            return a
        return RealFp(z3.If(c, a.r, b.r), a.kind)
    if a is b or a.eq(b):
        return a
    return z3.If(c, a, b)


def same_val(a, b):
    if a is b:
        return True
    if isinstance(a, IV):
        return isinstance(b, IV) and a.t.eq(b.t)
    if isinstance(b, IV):
        return False
    if isinstance(a, Ptr):
        return isinstance(b, Ptr) and a.base == b.base and a.off.eq(b.off)
    if isinstance(a, tuple):
        return isinstance(b, tuple) and all(same_val(x, y) for x, y in zip(a, b))
    if isinstance(a, RealFp):
        return isinstance(b, RealFp) and a.r.eq(b.r)
    if isinstance(b, (Ptr, tuple, RealFp)):
        return False
    return a.eq(b)


# ----------------------------------------------------------------------------- CFG helpers
def successors(term):
    if term.op == "br":
        return list(term.extra)
    if term.op == "switch":
        return [term.extra[0]] + [l for _, l in term.extra[1]]
    return []


def find_loops(f):
    """returns {header: set(blocks)} for natural loops; nested or irreducible loops are refused"""
    entry = f.order[0]
    succ = {b: successors(f.blocks[b][-1]) for b in f.order}
    # reachable blocks
    reach, stack = set(), [entry]
    while stack:
        b = stack.pop()
        if b in reach:
            continue
        reach.add(b)
        stack.extend(succ[b])
    preds = {b: [] for b in reach}
    for b in reach:
        for s in succ[b]:
            preds[s].append(b)
    # dominators (iterative)
    dom = {b: set(reach) for b in reach}
    dom[entry] = {entry}
    changed = True
    order = [b for b in f.order if b in reach]
    while changed:
        changed = False
        for b in order:
            if b == entry:
                continue
            ps = [dom[p] for p in preds[b]]
            new = set.intersection(*ps) | {b} if ps else {b}
            if new != dom[b]:
                dom[b] = new
                changed = True
    loops = {}
    for b in reach:
        for s in succ[b]:
            if s in dom[b]:  # back edge b -> s
                body = {s, b}
                st = [b]
                while st:
                    x = st.pop()
                    if x == s:
                        continue
                    for p in preds[x]:
                        if p not in body:
                            body.add(p)
                            st.append(p)
                loops.setdefault(s, set()).update(body)
    # detect retreating edges that are not back edges (irreducible)
    hs = list(loops)
    for i, h in enumerate(hs):
        for h2 in hs[i + 1:]:
            if loops[h] & loops[h2]:
                raise Unsupported("nested or overlapping loops")
    return loops, succ, reach


class Ctx:
    """what a stub sees"""

    def __init__(self, res, opts, cond):
        self.res, self.opts, self.cond = res, opts, cond

    def fresh(self, name, sort):
        c = z3.FreshConst(sort, self.opts.prefix + name)
        self.res.fresh.append(c)
        return c

    def assume(self, e):
        self.res.assumes.append(e)

    def ub(self, kind, text, cond):
        self.res.ub.append((kind, text, z3.And(self.cond, cond)))


def encode(mod, fname, args, opts=None):
    opts = opts or Opts()
    if fname not in mod.funcs:
        raise Unsupported("function %s not in module" % fname)
    f = mod.funcs[fname]
    if len(args) != len(f.params):
        raise Unsupported("arity of %s" % fname)
    res = Result()
    loops, succ, reach = find_loops(f)
    res.loops = len(loops)
    in_loop = {}
    for h, body in loops.items():
        for b in body:
            in_loop[b] = h
    N = opts.unroll

    def node_of(u, k, v):
        """target node for edge from node (u,k) to block v; None = unwinding exceeded"""
        lu = in_loop.get(u)
        lv = in_loop.get(v)
        if lv is None:
            return (v, None)
        if lu == lv:
            if v == lv:  # back edge
                n = N[v] if isinstance(N, dict) else N
                if k + 1 >= n:
                    return None
                return (v, k + 1)
            return (v, k)
        if v != lv:
            raise Unsupported("jump into the middle of a loop")
        return (v, 0)

    entry = f.order[0]
    start = (entry, 0 if entry in in_loop else None)
    # topological order of the unrolled DAG by DFS
    topo, seen = [], set()
    stack = [(start, iter(sorted(set(succ[entry]))))]
    seen.add(start)
    # iterative post-order
    while stack:
        node, it = stack[-1]
        adv = False
        for v in it:
            t = node_of(node[0], node[1], v)
            if t is None or t in seen:
                continue
            seen.add(t)
            stack.append((t, iter(sorted(set(succ[t[0]])))))
            adv = True
            break
        if not adv:
            topo.append(node)
            stack.pop()
    topo.reverse()
    res.nodes = len(topo)

    env0 = {}
    for (ty, name), a in zip(f.params, args):
        env0[name] = a
    incoming = {start: [(None, z3.BoolVal(True), env0)]}  # node -> [(pred block, cond, env)]

    ex = (IntExec if opts.int_mode else Exec)(mod, f, opts, res)
    for node in topo:
        inc = incoming.pop(node, [])
        inc = [(p, c, e) for (p, c, e) in inc if not is_false(c)]
        if not inc:
            continue
        b = node[0]
        res.blocks_reached.add(b)
        if len(inc) == 1:
            pc = inc[0][1]
            env = dict(inc[0][2])
        else:
            pc = simp(z3.Or([c for _, c, _ in inc]))
            env = merge_envs(inc)
        instrs = f.blocks[b]
        # phis first (evaluated against the incoming edge's environment)
        idx = 0
        phivals = {}
        while idx < len(instrs) and instrs[idx].op == "phi":
            ins = instrs[idx]
            val = None
            for (p, c, e) in inc:
                if p is None:
                    raise Unsupported("phi in entry block")
                j = ins.extra.index(p)
                v = ex.operand(ins.args[j], e)
                val = v if val is None else ite_val(c, v, val)
            phivals[ins.dest] = val
            idx += 1
        if opts.loop_cut is not None and node[1] == 0 and b in loops:
            # loop cut: the state at the loop head is replaced by the caller's symbolic state; the values the real
            # code enters the loop with are recorded for the Init obligation
            res.loop_init = dict(phivals)
            res.loop_init_cond = pc
            res.loop_header = b
            res.loop_phis = [ins for ins in instrs[:idx]]
            phivals = opts.loop_cut(b, phivals, env)
            res.loop_state = dict(phivals)
        env.update(phivals)
        ex.pc = pc
        for ins in instrs[idx:-1]:
            res.instrs += 1
            ex.step(ins, env)
        term = instrs[-1]
        if term.op == "ret":
            v = ex.operand(term.args[0], env) if term.args else None
            if opts.int_mode and opts.int_nowrap and isinstance(v, IV) and v.w > 1 and opts.track_ub:
                e = simp(v.t >= (1 << (v.w - 1)))
                if not is_false(e):
                    res.ub.append(("ENC: returned value >= 2^%d (read as signed by the caller)" % (v.w - 1), term.text.strip(),
                                   simp(z3.And(pc, e))))
            if res.ret is None or is_false(res.ret_cond):
                res.ret = v
            elif v is not None:
                res.ret = ite_val(pc, v, res.ret)
            res.ret_cond = simp(z3.Or(res.ret_cond, pc))
        elif term.op == "unreachable":
            if opts.track_ub:
                res.ub.append(("unreachable", term.text.strip(), pc))
        elif term.op == "br":
            if len(term.extra) == 1:
                edges = [(term.extra[0], z3.BoolVal(True))]
            else:
                c = simp(truth(ex.operand(term.args[0], env)))
                if opts.facts and not is_true(c) and not is_false(c):
                    c = decide_under(opts.facts, c)
                edges = [(term.extra[0], c), (term.extra[1], simp(z3.Not(c)))]
                if term.extra[0] == term.extra[1]:
                    edges = [(term.extra[0], z3.BoolVal(True))]
            for (v, c) in edges:
                if is_false(c):
                    continue
                full = pc if is_true(c) else (c if is_true(pc) else z3.And(pc, c))
                t = node_of(b, node[1], v)
                if t is None:
                    if opts.loop_cut is not None:
                        nxt = {}
                        for pins in f.blocks[v]:
                            if pins.op != "phi":
                                break
                            nxt[pins.dest] = ex.operand(pins.args[pins.extra.index(b)], env)
                        res.loop_next.append((full, nxt))
                        continue
                    res.unwind = z3.Or(res.unwind, full)
                    continue
                incoming.setdefault(t, []).append((b, full, env))
        elif term.op == "switch":
            x = ex.operand(term.args[0], env)
            w = x.size()
            dflt, cases = term.extra
            conds = []
            for (cv, lab) in cases:
                c = simp(x == bv(w, cv))
                conds.append(c)
                if is_false(c):
                    continue
                t = node_of(b, node[1], lab)
                full = z3.And(pc, c)
                if t is None:
                    res.unwind = z3.Or(res.unwind, full)
                else:
                    incoming.setdefault(t, []).append((b, full, env))
            c = simp(z3.Not(z3.Or(conds))) if conds else z3.BoolVal(True)
            if not is_false(c):
                t = node_of(b, node[1], dflt)
                full = z3.And(pc, c)
                if t is None:
                    res.unwind = z3.Or(res.unwind, full)
                else:
                    incoming.setdefault(t, []).append((b, full, env))
        else:
            raise Unsupported("terminator " + term.op)
    res.unwind = simp(res.unwind)
    return res


def merge_envs(inc):
    names = set()
    for _, _, e in inc:
        names.update(e.keys())
    env = {}
    first = inc[0][2]
    for n in names:
        val = None
        ok = True
        for (_, c, e) in inc:
            if n not in e:
                ok = False
                break
        if not ok:
            continue  # not defined on every path: cannot be used after the join in valid SSA
        val = first[n]
        for (_, c, e) in inc[1:]:
            v = e[n]
            if not same_val(v, val):
                val = ite_val(c, v, val)
        env[n] = val
    return env


class Exec:
    def __init__(self, mod, f, opts, res):
        self.mod, self.f, self.opts, self.res = mod, f, opts, res
        self.pc = z3.BoolVal(True)
        self.gbase = {}

    # ---------------------------------------------------------------- helpers
    def ub(self, kind, ins, cond):
        if not self.opts.track_ub:
            return
        c = simp(cond)
        if is_false(c):
            return
        full = c if is_true(self.pc) else z3.And(self.pc, c)
        self.res.ub.append((kind, ins.text.strip() if hasattr(ins, "text") else str(ins), full))

    def fresh(self, name, sort):
        c = z3.FreshConst(sort, self.opts.prefix + name)
        self.res.fresh.append(c)
        return c

    def ty(self, t):
        return self.mod.resolve(t) if isinstance(t, NamedTy) else t

    def base_addr(self, g):
        if g not in self.gbase:
            self.gbase[g] = z3.BitVec("ADDR!" + g, 64)
        return self.gbase[g]

    def fsort(self, kind):
        return z3.Float32() if kind == "float" else z3.Float64()

    def operand(self, op, env):
        k = op.kind
        ty = self.ty(op.ty)
        if k == "reg":
            if op.v not in env:
                raise Unsupported("use of undefined value %" + op.v)
            return env[op.v]
        if k == "int":
            return bv(ty.w, op.v)
        if k == "fp" and ty.kind == "x86_fp80":
            return Fp80(op.v)
        if k == "fp":
            if self.opts.fp_mode == "real":
                return RealFp(z3.RealVal(bits_to_fraction(ty.kind, op.v)), ty.kind)
            w = 32 if ty.kind == "float" else 64
            return z3.fpBVToFP(bv(w, op.v), self.fsort(ty.kind))
        if k == "global":
            return Ptr(op.v, bv(64, 0))
        if k == "null":
            return Ptr(None, bv(64, 0))
        if k == "undef" or k == "zero":
            if isinstance(ty, IntTy):
                return bv(ty.w, 0)
            if isinstance(ty, StructTy):
                return tuple(self.operand(Op(k, None, t), env) for t in ty.fields)
            if isinstance(ty, FpTy):
                w = 32 if ty.kind == "float" else 64
                return z3.fpBVToFP(bv(w, 0), self.fsort(ty.kind))
            raise Unsupported("undef/zero of %r" % (ty,))
        if k == "cexpr":
            opc = op.v[0]
            if opc == "getelementptr":
                _, bty, args, flags = op.v
                vals = [Exec.operand(self, a, env) for a in args]
                return self.gep(bty, vals, None, False)
            if opc == "bitcast":
                return Exec.operand(self, op.v[1], env)
            if opc == "ptrtoint":
                p = Exec.operand(self, op.v[1], env)
                return self.ptrtoint(p, self.ty(op.v[2]).w)
            raise Unsupported("constant expression " + opc)
        raise Unsupported("operand kind " + k)

    def ptrtoint(self, p, w):
        if p.base is None:
            a = p.off
        else:
            a = self.base_addr(p.base) + p.off
        if w < 64:
            return z3.Extract(w - 1, 0, a)
        if w > 64:
            return z3.ZeroExt(w - 64, a)
        return a

    def gep(self, bty, vals, ins, inbounds):
        p = vals[0]
        if not isinstance(p, Ptr):
            raise Unsupported("gep on non-pointer")
        off = p.off
        ty = bty
        first = True
        for v in vals[1:]:
            if first:
                sz = self.mod.sizeof(ty)
                first = False
            else:
                rty = self.ty(ty)
                if isinstance(rty, StructTy):
                    i = simp(v)
                    if not z3.is_bv_value(i):
                        raise Unsupported("symbolic struct index")
                    o, fty = self.mod.field_offset(rty, i.as_long())
                    off = off + bv(64, o)
                    ty = fty
                    continue
                if isinstance(rty, ArrTy):
                    ty = rty.el
                    sz = self.mod.sizeof(ty)
                else:
                    raise Unsupported("gep into scalar")
            w = v.size()
            idx = z3.SignExt(64 - w, v) if w < 64 else (z3.Extract(63, 0, v) if w > 64 else v)
            off = off + idx * bv(64, sz)
        return Ptr(p.base, simp(off))

    def load(self, ins, p, ty):
        ty = self.ty(ty)
        if not isinstance(p, Ptr) or p.base is None:
            raise Unsupported("load through unknown pointer")
        g = self.mod.globals.get(p.base)
        if g is None or g.cells is None:
            raise Unsupported("load from global without initializer: %s" % p.base)
        if isinstance(ty, IntTy):
            want, nbytes = ty.w, self.mod.sizeof(ty)
        elif isinstance(ty, FpTy):
            want, nbytes = ty.kind, self.mod.sizeof(ty)
        else:
            raise Unsupported("load of %r" % (ty,))
        offs = sorted(g.cells)
        # uniform stride table?
        for o in offs:
            if g.cells[o][0] != want:
                raise Unsupported("mixed-type global %s" % p.base)
        stride = nbytes
        if offs != list(range(0, len(offs) * stride, stride)):
            raise Unsupported("non-uniform global layout %s" % p.base)
        n = len(offs)
        off = simp(p.off)
        w = want if isinstance(want, int) else (32 if want == "float" else 64)
        oob = z3.Or(z3.UGE(off, bv(64, n * stride)), z3.URem(off, bv(64, stride)) != 0)
        self.ub("oob-load", ins, oob)
        if z3.is_bv_value(off):
            o = off.as_long()
            if o in g.cells:
                val = bv(w, g.cells[o][1])
            else:
                val = self.fresh("oobval", z3.BitVecSort(w))
        else:
            idx = z3.UDiv(off, bv(64, stride))
            nb = max(1, (n - 1).bit_length())
            ib = z3.Extract(nb - 1, 0, idx)
            dflt = self.fresh("oobval", z3.BitVecSort(w))

            def tree(lo, hi, bit):
                # values for indices in [lo, hi) where hi-lo == 2^(bit+1)
                if lo >= n:
                    return dflt
                if bit < 0:
                    return bv(w, g.cells[lo * stride][1])
                mid = lo + (1 << bit)
                return z3.If(z3.Extract(bit, bit, ib) == bv(1, 1), tree(mid, hi, bit - 1), tree(lo, mid, bit - 1))

            val = tree(0, 1 << nb, nb - 1)
            # out of range high bits: value is dflt (UB already recorded)
            val = z3.If(z3.ULT(idx, bv(64, n)), val, dflt)
        if isinstance(want, str):
            return z3.fpBVToFP(val, self.fsort(want))
        return val

    # ---------------------------------------------------------------- instruction step
    def step(self, ins, env):
        op = ins.op
        o = self.opts
        if op in ("add", "sub", "mul", "shl", "lshr", "ashr", "and", "or", "xor", "sdiv", "udiv", "srem", "urem"):
            a = self.operand(ins.args[0], env)
            b = self.operand(ins.args[1], env)
            env[ins.dest] = self.binop(ins, op, a, b)
            return
        if op == "icmp":
            pred, ty = ins.extra
            a = self.operand(ins.args[0], env)
            b = self.operand(ins.args[1], env)
            if isinstance(a, Ptr) or isinstance(b, Ptr):
                if not (isinstance(a, Ptr) and isinstance(b, Ptr) and a.base == b.base):
                    raise Unsupported("comparison of pointers into different objects")
                a, b = a.off, b.off
            r = {"eq": lambda: a == b, "ne": lambda: a != b,
                 "slt": lambda: a < b, "sle": lambda: a <= b, "sgt": lambda: a > b, "sge": lambda: a >= b,
                 "ult": lambda: z3.ULT(a, b), "ule": lambda: z3.ULE(a, b),
                 "ugt": lambda: z3.UGT(a, b), "uge": lambda: z3.UGE(a, b)}[pred]()
            env[ins.dest] = b2bv(simp(r))
            return
        if op == "select":
            c = self.operand(ins.args[0], env)
            a = self.operand(ins.args[1], env)
            b = self.operand(ins.args[2], env)
            env[ins.dest] = ite_val(simp(bv2b(c)), a, b)
            return
        if op in ("zext", "sext", "trunc"):
            a = self.operand(ins.args[0], env)
            w = self.ty(ins.ty).w
            aw = a.size()
            if op == "zext":
                env[ins.dest] = z3.ZeroExt(w - aw, a)
            elif op == "sext":
                env[ins.dest] = z3.SignExt(w - aw, a)
            else:
                env[ins.dest] = z3.Extract(w - 1, 0, a)
            return
        if op == "freeze":
            env[ins.dest] = self.operand(ins.args[0], env)
            return
        if op == "bitcast":
            a = self.operand(ins.args[0], env)
            ft, tt = self.ty(ins.extra), self.ty(ins.ty)
            if isinstance(a, Ptr):
                env[ins.dest] = a
            elif isinstance(ft, FpTy) and isinstance(tt, IntTy):
                if isinstance(a, RealFp):
                    raise Unsupported("bitcast of fp in real mode")
                env[ins.dest] = z3.fpToIEEEBV(a)
            elif isinstance(ft, IntTy) and isinstance(tt, FpTy):
                if o.fp_mode == "real":
                    raise Unsupported("bitcast to fp in real mode")
                env[ins.dest] = z3.fpBVToFP(a, self.fsort(tt.kind))
            else:
                raise Unsupported("bitcast %r -> %r" % (ft, tt))
            return
        if op == "ptrtoint":
            env[ins.dest] = self.ptrtoint(self.operand(ins.args[0], env), self.ty(ins.ty).w)
            return
        if op == "getelementptr":
            vals = [self.operand(a, env) for a in ins.args]
            env[ins.dest] = self.gep(ins.ty, vals, ins, "inbounds" in ins.flags)
            return
        if op == "load":
            env[ins.dest] = self.load(ins, self.operand(ins.args[0], env), ins.ty)
            return
        if op in ("fadd", "fsub", "fmul", "fdiv", "fneg", "fcmp", "sitofp", "uitofp", "fptosi", "fptoui", "fpext",
                  "fptrunc"):
            self.fpstep(ins, env)
            return
        if op == "call":
            self.call(ins, env)
            return
        if op == "extractvalue":
            a = self.operand(ins.args[0], env)
            for i in ins.extra:
                a = a[i]
            env[ins.dest] = a
            return
        if op == "insertvalue":
            agg = self.operand(ins.args[0], env)
            v = self.operand(ins.args[1], env)
            if len(ins.extra) != 1 or not isinstance(agg, tuple):
                raise Unsupported("nested insertvalue")
            lst = list(agg)
            lst[ins.extra[0]] = v
            env[ins.dest] = tuple(lst)
            return
        if op in ("alloca", "store", "inttoptr"):
            raise Unsupported("memory-writing IR (%s) is outside the encoded subset" % op)
        raise Unsupported("instruction " + op)

    # ---------------------------------------------------------------- integer arithmetic
    def binop(self, ins, op, a, b):
        o = self.opts
        w = a.size()
        fl = ins.flags if not o.machine else frozenset()
        if op == "add":
            if "nsw" in fl:
                self.ub("signed-overflow(add)", ins, sadd_ovf(a, b))
            if "nuw" in fl:
                self.ub("unsigned-overflow(add)", ins, uadd_ovf(a, b))
            return a + b
        if op == "sub":
            if "nsw" in fl:
                self.ub("signed-overflow(sub)", ins, ssub_ovf(a, b))
            if "nuw" in fl:
                self.ub("unsigned-overflow(sub)", ins, z3.ULT(a, b))
            return a - b
        if op == "mul":
            ca, cb = z3.is_bv_value(simp(a)), z3.is_bv_value(simp(b))
            sym2 = not ca and not cb
            if w >= 128 and o.mul_uf and sym2:
                # an __int128 product of widened 64-bit values: the same modular MULW<w> that oracles use for exact products
                h = w // 2
                fits = lambda v: z3.SignExt(w - h, z3.Extract(h - 1, 0, v)) == v
                if "nsw" in fl:
                    self.ub("signed-overflow(mul) [operands not widened %d-bit values]" % h, ins, z3.Not(z3.And(fits(a), fits(b))))
                return mulw(w)(simp(a), simp(b))
            if ("nsw" in fl and not (o.mul_ovf == "bits" and sym2)) or ((o.wide_mul or o.mul_uf) and sym2):
                wide = self.wide_mul(a, b, True)
                lo = z3.Extract(w - 1, 0, wide)
            if "nsw" in fl:
                if o.mul_ovf == "bits" and sym2:
                    # sufficient condition for "no overflow" without a multiplier: |a| <= 2^p and |b| <= 2^(62-p) for some p.
                    # The recorded UB condition is its negation: implied by (weaker than) real overflow, so `unsat`
                    # carries over; a `sat` answer must be re-decided with mul_ovf='exact'.
                    fits = lambda v, p: z3.SignExt(w - p - 1, z3.Extract(p, 0, v)) == v
                    self.ub("signed-overflow(mul) [bit-length bound]", ins,
                            z3.Not(z3.Or([z3.And(fits(a, p), fits(b, w - 2 - p)) for p in range(0, w - 1)])))
                else:
                    self.ub("signed-overflow(mul)", ins, z3.SignExt(w, lo) != wide)
            if "nuw" in fl:
                self.ub("unsigned-overflow(mul)", ins, umul_ovf(a, b))
            if (o.wide_mul or o.mul_uf) and sym2:
                return lo
            return a * b
        if op in ("shl", "lshr", "ashr"):
            self.ub("shift-count>=width", ins, z3.UGE(b, bv(w, w)))
            if op == "shl":
                r = a << b
                if "nsw" in fl:
                    self.ub("signed-overflow(shl)", ins, (r >> b) != a)
                if "nuw" in fl:
                    self.ub("unsigned-overflow(shl)", ins, z3.LShR(r, b) != a)
                return r
            if op == "lshr":
                if "exact" in fl:
                    self.ub("inexact(lshr)", ins, (z3.LShR(a, b) << b) != a)
                return z3.LShR(a, b)
            if "exact" in fl:
                self.ub("inexact(ashr)", ins, ((a >> b) << b) != a)
            return a >> b
        if op == "and":
            return a & b
        if op == "or":
            return a | b
        if op == "xor":
            return a ^ b
        if op in ("sdiv", "srem"):
            self.ub("division-by-zero", ins, b == bv(w, 0))
            self.ub("division-overflow(MIN/-1)", ins, z3.And(a == bv(w, 1 << (w - 1)), b == bv(w, (1 << w) - 1)))
            cb = z3.is_bv_value(simp(b))
            if o.div_uf is not None and (not cb or o.div_uf_all):
                fq, fr = o.div_uf
                if w != 64:
                    sw = z3.BitVecSort(w)
                    fq, fr = z3.Function("%s%d" % (fq.name(), w), sw, sw, sw), z3.Function("%s%d" % (fr.name(), w), sw, sw, sw)
                return fq(a, b) if op == "sdiv" else fr(a, b)
            if o.div_spec and not (z3.is_bv_value(simp(a)) and cb):
                q, r = self.sdivrem_spec(a, b, w)
                res = q if op == "sdiv" else r
            else:
                res = a / b if op == "sdiv" else z3.SRem(a, b)
            if op == "sdiv" and "exact" in fl:
                self.ub("inexact(sdiv)", ins, z3.SRem(a, b) != bv(w, 0))
            return res
        if op in ("udiv", "urem"):
            self.ub("division-by-zero", ins, b == bv(w, 0))
            return z3.UDiv(a, b) if op == "udiv" else z3.URem(a, b)
        raise Unsupported(op)

    def wide_mul(self, a, b, signed):
        """the exact 2w-bit product as ONE term: either a real bvmul of the extended operands, or (opts.mul_uf) the
        uninterpreted function MULW<2w> applied to the simplified extended operands.  Under mul_uf only facts that
        hold for every function (plus the lemma instances the property module adds, each a valid bvmul identity) are
        available, so `unsat` carries over to real multiplication."""
        w = a.size()
        ext = z3.SignExt if signed else z3.ZeroExt
        A, Bx = simp(ext(w, a)), simp(ext(w, b))
        if self.opts.mul_uf and not z3.is_bv_value(A) and not z3.is_bv_value(Bx):
            return mulw(2 * w)(A, Bx)
        return A * Bx

    def sdivrem_spec(self, a, b, w):
        """truncated division defined by its specification: a = q*b + r, |r| < |b|, sign(r) in {0, sign(a)};
        unique for b != 0 and not (a = MIN and b = -1), so the encoding is sound and complete there."""
        key = ("sdivrem", a.get_id(), b.get_id())
        cache = self.res.__dict__.setdefault("_divcache", {})
        if key in cache:
            return cache[key]
        q = self.fresh("q", z3.BitVecSort(w))
        r = self.fresh("r", z3.BitVecSort(w))
        W = 2 * w
        A, B, Q, R = (z3.SignExt(w, x) for x in (a, b, q, r))
        absb = z3.If(B < 0, -B, B)
        absr = z3.If(R < 0, -R, R)
        QB = self.wide_mul(q, b, True)
        spec = z3.And(A == QB + R, absr < absb, z3.Or(R == 0, (R < 0) == (A < 0)))
        defined = z3.And(b != bv(w, 0), z3.Not(z3.And(a == bv(w, 1 << (w - 1)), b == bv(w, (1 << w) - 1))))
        self.res.assumes.append(z3.Implies(defined, spec))
        cache[key] = (q, r)
        return q, r

    # ---------------------------------------------------------------- floating point
    def fpstep(self, ins, env):
        if self.opts.fp_mode == "real":
            return self.fpstep_real(ins, env)
        op = ins.op
        if op in ("fadd", "fsub", "fmul", "fdiv"):
            a = self.operand(ins.args[0], env)
            b = self.operand(ins.args[1], env)
            f = {"fadd": z3.fpAdd, "fsub": z3.fpSub, "fmul": z3.fpMul, "fdiv": z3.fpDiv}[op]
            if op == "fdiv":
                # x / 2^k and x * 2^-k are the correctly rounded images of the same real number (and agree on zeros, infinities
                # and NaN), so division by a power of two whose reciprocal is a normal number is encoded as that product;
                # the optimiser performs exactly this rewrite and the multiplier is far cheaper than the divider
                bs = simp(b)
                if z3.is_fp_value(bs) and not bs.isNaN() and not bs.isInf() and not bs.isZero() and not bs.isSubnormal():
                    eb, sb = bs.ebits(), bs.sbits()
                    if bs.significand_as_long() == 0:
                        e = bs.exponent_as_long(biased=True)
                        bias = (1 << (eb - 1)) - 1
                        e2 = 2 * bias - e              # biased exponent of the reciprocal
                        if 1 <= e2 <= 2 * bias:
                            sign = 1 if bs.isNegative() else 0
                            rec = z3.fpFP(z3.BitVecVal(sign, 1), z3.BitVecVal(e2, eb), z3.BitVecVal(0, sb - 1))
                            f, b = z3.fpMul, simp(rec)
            if op in ("fadd", "fmul") or f is z3.fpMul:
                # IEEE addition and multiplication are commutative (one NaN in SMT-LIB): fix an operand order so that a
                # commuted instruction is the same term
                if a.get_id() > b.get_id():
                    a, b = b, a
            env[ins.dest] = f(RNE, a, b)
        elif op == "fneg":
            env[ins.dest] = z3.fpNeg(self.operand(ins.args[0], env))
        elif op == "fcmp":
            pred, ty = ins.extra
            a = self.operand(ins.args[0], env)
            b = self.operand(ins.args[1], env)
            env[ins.dest] = b2bv(simp(fcmp(pred, a, b)))
        elif op in ("sitofp", "uitofp"):
            a = self.operand(ins.args[0], env)
            s = self.fsort(self.ty(ins.ty).kind)
            env[ins.dest] = z3.fpSignedToFP(RNE, a, s) if op == "sitofp" else z3.fpUnsignedToFP(RNE, a, s)
        elif op in ("fptosi", "fptoui"):
            a = self.operand(ins.args[0], env)
            w = self.ty(ins.ty).w
            t = z3.fpRoundToIntegral(RTZ, a)
            if op == "fptosi":
                lo = z3.fpSignedToFP(RTZ, bv(w + 1, -(1 << (w - 1))), a.sort()) if False else None
                # in range  <=>  -2^(w-1) <= trunc(a) < 2^(w-1)
                two = z3.FPVal(float(2 ** (w - 1)), a.sort())
                inr = z3.And(z3.Not(z3.fpIsNaN(a)), z3.Not(z3.fpIsInf(a)), z3.fpGEQ(t, z3.fpNeg(two)), z3.fpLT(t, two))
                self.ub("float-cast-overflow", ins, z3.Not(inr))
                env[ins.dest] = z3.fpToSBV(RTZ, a, z3.BitVecSort(w))
            else:
                two = z3.FPVal(float(2 ** w), a.sort())
                inr = z3.And(z3.Not(z3.fpIsNaN(a)), z3.Not(z3.fpIsInf(a)),
                             z3.fpGT(a, z3.FPVal(-1.0, a.sort())), z3.fpLT(t, two))
                self.ub("float-cast-overflow", ins, z3.Not(inr))
                env[ins.dest] = z3.fpToUBV(RTZ, a, z3.BitVecSort(w))
        elif op == "fpext":
            env[ins.dest] = z3.fpFPToFP(RNE, self.operand(ins.args[0], env), z3.Float64())
        elif op == "fptrunc":
            a = self.operand(ins.args[0], env)
            kind = self.ty(ins.ty).kind
            if isinstance(a, Fp80):
                # only constants of type long double occur (user-defined literal operands): round exactly
                import struct as _s
                x = float(a.fraction())
                if kind == "double":
                    env[ins.dest] = z3.fpBVToFP(bv(64, _s.unpack("<Q", _s.pack("<d", x))[0]), z3.Float64())
                else:
                    raise Unsupported("x86_fp80 -> float")
            else:
                env[ins.dest] = z3.fpFPToFP(RNE, a, self.fsort(kind))
        else:
            raise Unsupported(op)

    def fpstep_real(self, ins, env):
        """Real-arithmetic abstraction.  Every FP value is a real; each rounding introduces a fresh relative
        error d with |d| <= 2^-53 (double) / 2^-24 (float): result = exact*(1+d).  Sound for normal-range
        results (no overflow/underflow), which the caller must establish from value ranges; exactness of
        int->fp for |n| < 2^53 and of scaling by powers of two is used where the encoder can see it."""
        op = ins.op
        eps = {"double": z3.Q(1, 2 ** 53), "float": z3.Q(1, 2 ** 24)}

        def rnd(x, kind):
            d = self.fresh("d", z3.RealSort())
            self.res.assumes.append(z3.And(d >= -eps[kind], d <= eps[kind]))
            return RealFp(x * (1 + d), kind)

        if op in ("sitofp", "uitofp"):
            a = self.operand(ins.args[0], env)
            kind = self.ty(ins.ty).kind
            m = 53 if kind == "double" else 24
            w = a.size()
            if isinstance(a, IV):
                if op == "sitofp" and self.opts.int_nowrap and w > 1:
                    self.ub("ENC: value >= 2^%d used as signed (sitofp)" % (w - 1), ins, a.t >= (1 << (w - 1)))
                ai = a.t if op == "sitofp" else a.t % (1 << w)
                r = z3.ToReal(ai)
                inexact = z3.Not(z3.And(ai <= (1 << m), ai >= -(1 << m)))
            else:
                r = z3.ToReal(z3.BV2Int(a, is_signed=(op == "sitofp")))
                lim = bv(w, 1 << m)
                inexact = z3.Not(z3.And(a <= lim, a >= -lim))
            # exact when |a| <= 2^mant; otherwise correctly rounded: one relative error, zero in the exact range
            if w > m:
                d = self.fresh("d", z3.RealSort())
                self.res.assumes.append(z3.And(d >= -eps[kind], d <= eps[kind], z3.Implies(z3.Not(inexact), d == 0)))
                r = r * (1 + d)
            env[ins.dest] = RealFp(r, kind)
        elif op in ("fadd", "fsub", "fmul", "fdiv"):
            a = self.operand(ins.args[0], env)
            b = self.operand(ins.args[1], env)
            kind = a.kind
            if op == "fdiv" and z3.is_rational_value(simp(b.r)) and is_pow2(simp(b.r)):
                env[ins.dest] = RealFp(a.r / b.r, kind)  # scaling by a power of two is exact (no underflow)
            elif op == "fmul" and z3.is_rational_value(simp(b.r)) and is_pow2(simp(b.r)):
                env[ins.dest] = RealFp(a.r * b.r, kind)
            else:
                x = {"fadd": a.r + b.r, "fsub": a.r - b.r, "fmul": a.r * b.r, "fdiv": a.r / b.r}[op]
                env[ins.dest] = rnd(x, kind)
        elif op == "fneg":
            a = self.operand(ins.args[0], env)
            env[ins.dest] = RealFp(-a.r, a.kind)
        elif op == "fcmp":
            pred, ty = ins.extra
            a = self.operand(ins.args[0], env).r
            b = self.operand(ins.args[1], env).r
            r = {"olt": a < b, "ogt": a > b, "ole": a <= b, "oge": a >= b, "oeq": a == b, "one": a != b,
                 "ult": a < b, "ugt": a > b, "ule": a <= b, "uge": a >= b, "ueq": a == b, "une": a != b}[pred]
            env[ins.dest] = IV(z3.If(simp(r), z3.IntVal(1), z3.IntVal(0)), 1) if self.opts.int_mode else b2bv(simp(r))
        elif op == "fptosi":
            a = self.operand(ins.args[0], env)
            w = self.ty(ins.ty).w
            # truncation toward zero
            fl = z3.ToInt(a.r)
            t = z3.If(a.r >= 0, fl, -z3.ToInt(-a.r))
            self.ub("float-cast-overflow", ins, z3.Or(t >= 2 ** (w - 1), t < -(2 ** (w - 1))))
            env[ins.dest] = IV(t, w) if self.opts.int_mode else z3.Int2BV(t, w)
        elif op in ("fpext",):
            a = self.operand(ins.args[0], env)
            env[ins.dest] = RealFp(a.r, "double")
        elif op == "fptrunc":
            a = self.operand(ins.args[0], env)
            env[ins.dest] = rnd(a.r, "float")
        else:
            raise Unsupported("fp op %s in real mode" % op)

    # ---------------------------------------------------------------- calls
    def call(self, ins, env):
        name = ins.extra
        o = self.opts
        args = [self.operand(a, env) for a in ins.args] if not name.startswith("llvm.lifetime") and \
            not name.startswith("llvm.dbg") else []
        if name in o.stubs:
            ctx = Ctx(self.res, o, self.pc)
            r = o.stubs[name](ctx, args)
            self.res.calls.append((name, args, r))
            if ins.dest:
                env[ins.dest] = r
            return
        base = name.split(".")
        if name in self.mod.funcs and not name.startswith("llvm."):
            # a callee the optimiser left out of line (or a recursive function): encode it in place.  From the second
            # nesting level on, a call whose accumulated path condition is unsatisfiable is not followed (bounded
            # recursion such as f(x) = x >= c ? 2*f(x/4) : ... terminates that way).
            depth = getattr(o, "_depth", 0)
            outer = getattr(o, "_outer_pc", None)
            here = self.pc if outer is None else z3.And(outer, self.pc)
            if depth >= 1:
                chk = z3.Solver()
                chk.set("timeout", 5000)
                chk.add(here)
                for a_ in self.res.assumes:
                    chk.add(a_)
                if chk.check() == z3.unsat:
                    if ins.dest:
                        env[ins.dest] = self.fresh("deadcall", z3.BitVecSort(self.ty(ins.ty).w)) \
                            if isinstance(self.ty(ins.ty), IntTy) else None
                    return
            if depth > 6:
                raise Unsupported("call depth")
            o._depth = depth + 1
            o._outer_pc = here
            try:
                sub = encode(self.mod, name, args, o)
            finally:
                o._depth = depth
                o._outer_pc = outer
            pc = self.pc
            for k, t, cnd in sub.ub:
                self.res.ub.append((k, t, cnd if is_true(pc) else z3.And(pc, cnd)))
            self.res.assumes.extend(sub.assumes)
            self.res.fresh.extend(sub.fresh)
            self.res.calls.extend(sub.calls)
            if not is_false(sub.unwind):
                self.res.unwind = z3.Or(self.res.unwind, z3.And(pc, sub.unwind))
            if ins.dest:
                env[ins.dest] = sub.ret
            return
        if name.startswith("llvm.expect"):
            env[ins.dest] = args[0]
        elif name.startswith("llvm.lifetime") or name.startswith("llvm.dbg") or name.startswith("llvm.assume") \
                or name.startswith("llvm.experimental.noalias"):
            pass
        elif name.startswith("llvm.is.constant"):
            a = ins.args[0]
            env[ins.dest] = bv(1, 1 if a.kind in ("int", "fp", "null") else 0)
        elif (name.startswith("llvm.ctlz") or name.startswith("llvm.cttz")) and o.clz_uf:
            x = args[0]
            w = x.size()
            f = z3.Function("%s%d" % ("CLZ" if "ctlz" in name else "CTZ", w), z3.BitVecSort(w), z3.BitVecSort(w))
            env[ins.dest] = f(x)       # relational obligations: same argument => same count
        elif name.startswith("llvm.ctlz") or name.startswith("llvm.cttz"):
            x = args[0]
            w = x.size()
            zp = simp(args[1])
            if z3.is_bv_value(zp) and zp.as_long() == 1:
                self.ub("ctlz/cttz of zero (poison)", ins, x == bv(w, 0))
            r = bv(w, w)
            rng = range(w) if name.startswith("llvm.ctlz") else range(w - 1, -1, -1)
            for i in rng:
                # ctlz: scanning from low to high so the highest set bit wins
                cnt = (w - 1 - i) if name.startswith("llvm.ctlz") else i
                r = z3.If(z3.Extract(i, i, x) == bv(1, 1), bv(w, cnt), r)
            env[ins.dest] = r
        elif name.startswith("llvm.ctpop"):
            x = args[0]
            w = x.size()
            r = bv(w, 0)
            for i in range(w):
                r = r + z3.ZeroExt(w - 1, z3.Extract(i, i, x))
            env[ins.dest] = r
        elif name.startswith("llvm.abs"):
            x = args[0]
            w = x.size()
            zp = simp(args[1])
            if z3.is_bv_value(zp) and zp.as_long() == 1:
                self.ub("abs of INT_MIN (poison)", ins, x == bv(w, 1 << (w - 1)))
            env[ins.dest] = z3.If(x < 0, -x, x)
        elif base[:2] in (["llvm", "smax"], ["llvm", "smin"], ["llvm", "umax"], ["llvm", "umin"]):
            a, b = args
            c = {"smax": a > b, "smin": a < b, "umax": z3.UGT(a, b), "umin": z3.ULT(a, b)}[base[1]]
            env[ins.dest] = z3.If(c, a, b)
        elif base[0] == "llvm" and base[1] in ("sadd", "ssub", "smul", "uadd", "usub", "umul") and base[2] == "with":
            a, b = args
            w = a.size()
            k = base[1]
            if k == "sadd":
                r, ov = a + b, sadd_ovf(a, b)
            elif k == "ssub":
                r, ov = a - b, ssub_ovf(a, b)
            elif k == "uadd":
                r, ov = a + b, uadd_ovf(a, b)
            elif k == "usub":
                r, ov = a - b, z3.ULT(a, b)
            elif k == "smul":
                wide = self.wide_mul(a, b, True)
                r = z3.Extract(w - 1, 0, wide)
                ov = z3.SignExt(w, r) != wide
            else:
                wide = self.wide_mul(a, b, False)
                r = z3.Extract(w - 1, 0, wide)
                ov = z3.Extract(2 * w - 1, w, wide) != bv(w, 0)
            env[ins.dest] = (r, b2bv(simp(ov)))
        elif base[0] == "llvm" and base[1] in ("sadd", "ssub", "uadd", "usub") and base[2] == "sat":
            raise Unsupported("saturating intrinsic")
        elif name.startswith("llvm.ubsantrap") or name.startswith("llvm.trap"):
            self.ub("trap", ins, z3.BoolVal(True))
        elif name.startswith("llvm.fmuladd") or name.startswith("llvm.fma."):
            a, b, c = args
            if o.fp_mode == "real":
                d = self.fresh("d", z3.RealSort())
                e = z3.Q(1, 2 ** 53) if a.kind == "double" else z3.Q(1, 2 ** 24)
                self.res.assumes.append(z3.And(d >= -e, d <= e))
                if o.fma == "fused" or name.startswith("llvm.fma."):
                    env[ins.dest] = RealFp((a.r * b.r + c.r) * (1 + d), a.kind)
                else:
                    d2 = self.fresh("d", z3.RealSort())
                    self.res.assumes.append(z3.And(d2 >= -e, d2 <= e))
                    prod = a.r * b.r if is_pow2(simp(b.r)) else a.r * b.r * (1 + d2)
                    env[ins.dest] = RealFp((prod + c.r) * (1 + d), a.kind)
            elif o.fma == "fused" or name.startswith("llvm.fma."):
                env[ins.dest] = z3.fpFMA(RNE, a, b, c)
            else:
                env[ins.dest] = z3.fpAdd(RNE, z3.fpMul(RNE, a, b), c)
        elif name.startswith("llvm.fabs"):
            a = args[0]
            env[ins.dest] = RealFp(z3.If(a.r < 0, -a.r, a.r), a.kind) if isinstance(a, RealFp) else z3.fpAbs(a)
        elif name.startswith("llvm.sqrt") or name in ("sqrt", "sqrtf"):
            a = args[0]
            if isinstance(a, RealFp):
                raise Unsupported("sqrt in real mode needs a stub")
            env[ins.dest] = z3.fpSqrt(RNE, a)
        elif name.startswith("llvm.floor") or name == "floor":
            env[ins.dest] = z3.fpRoundToIntegral(z3.RTN(), args[0])
        elif name.startswith("llvm.ceil") or name == "ceil":
            env[ins.dest] = z3.fpRoundToIntegral(z3.RTP(), args[0])
        elif name.startswith("llvm.trunc") or name == "trunc":
            env[ins.dest] = z3.fpRoundToIntegral(RTZ, args[0])
        elif name.startswith("llvm.memcpy") or name.startswith("llvm.memset") or name.startswith("llvm.memmove"):
            raise Unsupported("memory intrinsic")
        else:
            raise Unsupported("call to " + name)


def mulw(w2):
    s = z3.BitVecSort(w2)
    return z3.Function("MULW%d" % w2, s, s, s)


def mentions(expr, names):
    """does the term contain an application of one of the named functions / constants"""
    seen, stack = set(), [expr]
    while stack:
        e = stack.pop()
        i = e.get_id()
        if i in seen:
            continue
        seen.add(i)
        if z3.is_app(e):
            if e.decl().name() in names:
                return True
            stack.extend(e.children())
    return False


def uf_apps(exprs, name_prefix="MULW"):
    """all distinct applications of the MULW functions inside exprs"""
    seen, out, stack = set(), [], list(exprs)
    while stack:
        e = stack.pop()
        i = e.get_id()
        if i in seen:
            continue
        seen.add(i)
        if z3.is_app(e):
            if e.decl().kind() == z3.Z3_OP_UNINTERPRETED and e.num_args() == 2 and e.decl().name().startswith(name_prefix):
                out.append(e)
            stack.extend(e.children())
    return out


def magnitude_lemmas(app, mul=None):
    """|X| < 2^p  =>  |X*Y| <= |Y| * 2^p   for operands that are sign extensions of h-bit values (no wrap in 2h bits);
    lets the solver do interval-style reasoning about an uninterpreted product."""
    X, Y = app.children()
    w2 = X.size()
    h = w2 // 2
    P = app if mul is None else mul
    c = lambda v: z3.BitVecVal(v, w2)
    absv = lambda v: z3.If(v < 0, -v, v)
    lim = c(1 << (h - 1))
    small = z3.And(X <= lim, X >= -lim, Y <= lim, Y >= -lim)
    aX, aY, aP = absv(X), absv(Y), absv(P)
    out = []
    for p in range(0, h):
        out.append(z3.Implies(z3.And(small, aX < c(1 << p)), aP <= (aY << p)))
        out.append(z3.Implies(z3.And(small, aY < c(1 << p)), aP <= (aX << p)))
        out.append(z3.Implies(z3.And(small, aX >= c(1 << p)), aP >= (aY << p)))
    return out


def mul_lemmas(app, mul=None):
    """instances of valid bit-vector multiplication facts for one application MULW<w2>(X, Y) (w2 = 2h):
    zero / one, unsigned magnitude, signed magnitude and sign rule for operands that are extensions of h-bit values.
    `mul` = the real product (used by lemma_selftest to validate the templates at a small width)."""
    X, Y = app.children()
    w2 = X.size()
    h = w2 // 2
    P = app if mul is None else mul
    c = lambda v: z3.BitVecVal(v, w2)
    out = [z3.Implies(z3.Or(X == c(0), Y == c(0)), P == c(0)),
           z3.Implies(X == c(1), P == Y), z3.Implies(Y == c(1), P == X)]
    for p, q in ((h, h - 1), (h - 1, h), (h - 1, h - 1)):
        out.append(z3.Implies(z3.And(z3.ULT(X, c(1 << p)), z3.ULT(Y, c(1 << q))), z3.ULT(P, c(1 << (p + q)))))
    lim = c(1 << (h - 1))
    small = z3.And(X <= lim, X >= -lim, Y <= lim, Y >= -lim)
    out.append(z3.Implies(small, z3.And(P <= c(1 << (w2 - 2)), P >= -c(1 << (w2 - 2)))))
    # one operand may be as large as +-(2^h - 1) (a difference of two h-bit values): the product still cannot wrap
    big = c((1 << h) - 1)
    nowrap = z3.Or(z3.And(X <= big, X >= -big, Y <= lim, Y >= -lim), z3.And(Y <= big, Y >= -big, X <= lim, X >= -lim))
    out.append(z3.Implies(z3.And(nowrap, X > 0, Y > 0), P > 0))
    out.append(z3.Implies(z3.And(nowrap, X < 0, Y < 0), P > 0))
    out.append(z3.Implies(z3.And(nowrap, X > 0, Y < 0), P < 0))
    out.append(z3.Implies(z3.And(nowrap, X < 0, Y > 0), P < 0))
    # |P| >= |X| when Y != 0, |P| >= |Y| when X != 0
    absv = lambda v: z3.If(v < 0, -v, v)
    out.append(z3.Implies(z3.And(nowrap, Y != 0), absv(P) >= absv(X)))
    out.append(z3.Implies(z3.And(nowrap, X != 0), absv(P) >= absv(Y)))
    return out


_LEMMA_OK = None


def lemma_selftest():
    """every lemma template must be a theorem of real bvmul (checked at operand width 2*6 bits)"""
    global _LEMMA_OK
    if _LEMMA_OK is None:
        w2 = 12
        x, y = z3.BitVecs("lx ly", w2)
        app = mulw(w2)(x, y)
        s = z3.Solver()
        s.add(z3.Not(z3.And(mul_lemmas(app, mul=x * y) + magnitude_lemmas(app, mul=x * y))))
        _LEMMA_OK = s.check() == z3.unsat
    return _LEMMA_OK


def decide_under(facts, c, budget_ms=200):
    """c, or True/False when the facts decide it (two small solver checks; anything not decided in the budget stays symbolic)"""
    if len(str(c)) > 400:
        return c
    sv = z3.Solver()
    sv.set("timeout", budget_ms)
    sv.add(*facts)
    sv.push()
    sv.add(z3.Not(c))
    r = sv.check()
    sv.pop()
    if r == z3.unsat:
        return z3.BoolVal(True)
    sv.add(c)
    if sv.check() == z3.unsat:
        return z3.BoolVal(False)
    return c


def sadd_ovf(a, b):
    r = a + b
    w = a.size()
    return z3.Extract(w - 1, w - 1, (a ^ r) & (b ^ r)) == bv(1, 1)


def ssub_ovf(a, b):
    r = a - b
    w = a.size()
    return z3.Extract(w - 1, w - 1, (a ^ b) & (a ^ r)) == bv(1, 1)


def uadd_ovf(a, b):
    return z3.ULT(a + b, a)


def umul_ovf(a, b):
    w = a.size()
    return z3.Extract(2 * w - 1, w, z3.ZeroExt(w, a) * z3.ZeroExt(w, b)) != bv(w, 0)


def iwrap(t, w):
    h = 1 << (w - 1)
    return ((t + h) % (1 << w)) - h


MULI = z3.Function("MULI", z3.IntSort(), z3.IntSort(), z3.IntSort())


class IntExec(Exec):
    """INT semantics (DESIGN.md 3.1): every LLVM integer is its mathematical signed value.  Operations flagged
    nsw/nuw are performed without wrap-around and contribute their overflow condition as a UB site (the caller proves
    the UB sites unreachable on the domain, or includes them in the query); unflagged operations wrap explicitly.
    Supported: add sub mul shl/lshr/ashr by constants, and with 2^k-1 / -2^k masks, sdiv/srem, icmp, casts, select, phi,
    llvm.expect.  Anything else raises Unsupported."""

    def operand(self, op, env):
        ty = self.ty(op.ty)
        if op.kind == "int" and isinstance(ty, IntTy):
            v = op.v & ((1 << ty.w) - 1)
            if ty.w > 1 and v >> (ty.w - 1):
                v -= 1 << ty.w
            return IV(z3.IntVal(v), ty.w)
        if op.kind in ("undef", "zero") and isinstance(ty, IntTy):
            return IV(z3.IntVal(0), ty.w)
        if op.kind in ("undef", "zero") and isinstance(ty, StructTy):
            return tuple(self.operand(Op(op.kind, None, t), env) for t in ty.fields)
        if op.kind == "reg":
            return env[op.v]
        if op.kind in ("global", "cexpr", "fp"):
            return Exec.operand(self, op, env)      # constant pointer into a global / fp literal (real mode)
        raise Unsupported("operand %s in INT mode" % op.kind)

    def rng(self, t, w):
        return z3.And(t >= -(1 << (w - 1)), t < (1 << (w - 1)))

    def const(self, v):
        e = simp(v.t)
        return e.as_long() if z3.is_int_value(e) else None

    def step(self, ins, env):
        op = ins.op
        o = self.opts
        if op in ("add", "sub", "mul", "shl", "lshr", "ashr", "and", "or", "xor", "sdiv", "udiv", "srem", "urem"):
            a = self.operand(ins.args[0], env)
            b = self.operand(ins.args[1], env)
            w = a.w
            fl = ins.flags
            ca, cb = self.const(a), self.const(b)
            if o.int_nowrap and w > 1 and (op in ("ashr", "sdiv", "srem") or "nsw" in fl):
                for v in (a, b):
                    self.ub("ENC: value >= 2^%d used as signed (%s)" % (w - 1, op), ins, v.t >= (1 << (w - 1)))
            if w == 1:
                x, y = a.t, b.t
                if op == "xor":
                    r = z3.If(x == y, z3.IntVal(0), z3.IntVal(1))
                elif op == "and":
                    r = z3.If(z3.And(x != 0, y != 0), z3.IntVal(1), z3.IntVal(0))
                elif op == "or":
                    r = z3.If(z3.Or(x != 0, y != 0), z3.IntVal(1), z3.IntVal(0))
                else:
                    raise Unsupported("i1 %s in INT mode" % op)
                env[ins.dest] = IV(r, 1)
                return
            if op in ("and", "or", "xor") and ca is not None and cb is not None:
                m = (1 << w) - 1
                v = {"and": (ca & m) & (cb & m), "or": (ca & m) | (cb & m), "xor": (ca & m) ^ (cb & m)}[op]
                env[ins.dest] = IV(z3.IntVal(v - (1 << w) if v >> (w - 1) else v), w)
                return
            if op in ("or", "xor") and (ca == 0 or cb == 0):
                env[ins.dest] = b if ca == 0 else a
                return
            if op in ("add", "sub", "mul"):
                if op == "add":
                    r = a.t + b.t
                elif op == "sub":
                    r = a.t - b.t
                elif ca is None and cb is None and o.mul_uf:
                    r = MULI(a.t, b.t)
                else:
                    r = a.t * b.t
                if "nsw" in fl:
                    self.ub("signed-overflow(%s)" % op, ins, z3.Not(self.rng(r, w)))
                    env[ins.dest] = IV(r, w)
                elif o.int_nowrap:
                    # fast path: the operation is taken not to wrap, and "it does wrap" becomes a side condition that the
                    # same query must refute (listed with the UB sites; it is not UB, it only leaves this encoding)
                    self.ub("ENC: wrap-around outside the INT no-wrap encoding (%s)" % op, ins,
                            z3.Not(z3.And(r >= -(1 << (w - 1)), r < (1 << w))))
                    env[ins.dest] = IV(r, w)
                else:
                    env[ins.dest] = IV(iwrap(r, w), w)
                return
            if op in ("shl", "lshr", "ashr"):
                if cb is not None and not (0 <= cb < w):
                    # only reachable on a path the domain excludes; the site is recorded and the value is irrelevant
                    self.ub("shift-count>=width", ins, z3.BoolVal(True))
                    env[ins.dest] = IV(z3.IntVal(0), w)
                    return
                if cb is None:
                    self.ub("shift-count>=width", ins, z3.Or(b.t < 0, b.t >= w))

                def sh(k):
                    if op == "shl":
                        r = a.t * (1 << k)
                        return r if "nsw" in fl else iwrap(r, w)
                    if op == "ashr":
                        return a.t / (1 << k)                      # Int division by a positive constant floors
                    if o.int_nowrap:
                        return a.t / (1 << k)                      # non-negative operand (side condition below)
                    return iwrap((a.t % (1 << w)) / (1 << k), w)
                if op == "lshr" and o.int_nowrap:
                    self.ub("ENC: negative operand of lshr outside the INT no-wrap encoding", ins, a.t < 0)
                nowrap_shl = op == "shl" and o.int_nowrap and "nsw" not in fl
                if nowrap_shl:
                    fl = set(fl) | {"nsw"}
                if cb is not None:
                    r = sh(cb)
                else:
                    # symbolic count: case split over the w possible counts (the domain usually pins it down)
                    r = sh(w - 1)
                    for k in range(w - 2, -1, -1):
                        r = z3.If(b.t == k, sh(k), r)
                if nowrap_shl:
                    # not UB (the IR's shl wraps): the shifted value is taken not to wrap, "it does" is a side condition of
                    # the encoding; a result in [2^(w-1), 2^w) is kept as the unsigned representative and every signed use
                    # of such a value is a side condition of its own
                    self.ub("ENC: wrap-around outside the INT no-wrap encoding (shl)", ins,
                            z3.Not(z3.And(r >= -(1 << (w - 1)), r < (1 << w))))
                elif op == "shl" and "nsw" in fl:
                    self.ub("signed-overflow(shl)", ins, z3.Not(self.rng(r, w)))
                env[ins.dest] = IV(r, w)
                return
            if op == "and":
                if ca is not None and cb is None:
                    a, b, ca, cb = b, a, cb, ca
                if cb is not None and cb >= 0 and (cb & (cb + 1)) == 0:
                    env[ins.dest] = IV(a.t % (cb + 1), w)
                    return
                if cb is not None and cb < 0 and ((-cb) & (-cb - 1)) == 0:
                    env[ins.dest] = IV(a.t - (a.t % (-cb)), w)
                    return
                raise Unsupported("general bitwise and in INT mode")
            if op in ("sdiv", "srem"):
                self.ub("division-by-zero", ins, b.t == 0)
                self.ub("division-overflow(MIN/-1)", ins, z3.And(a.t == -(1 << (w - 1)), b.t == -1))
                absb = z3.If(b.t < 0, -b.t, b.t)
                absa = z3.If(a.t < 0, -a.t, a.t)
                qm = absa / absb
                q = z3.If((a.t < 0) != (b.t < 0), -qm, qm)
                env[ins.dest] = IV(q if op == "sdiv" else a.t - q * b.t, w)
                return
            raise Unsupported("%s in INT mode" % op)
        if op == "icmp":
            pred, ty = ins.extra
            a = self.operand(ins.args[0], env)
            b = self.operand(ins.args[1], env)
            w = a.w
            x, y = a.t, b.t
            if o.int_nowrap and w > 1 and pred[0] == "s":
                for v in (a, b):
                    self.ub("ENC: value >= 2^%d used as signed (icmp)" % (w - 1), ins, v.t >= (1 << (w - 1)))
            if pred[0] == "u":
                x, y = x % (1 << w), y % (1 << w)
            r = {"eq": x == y, "ne": x != y, "slt": x < y, "sle": x <= y, "sgt": x > y, "sge": x >= y,
                 "ult": x < y, "ule": x <= y, "ugt": x > y, "uge": x >= y}[pred]
            env[ins.dest] = IV(z3.If(simp(r), z3.IntVal(1), z3.IntVal(0)), 1)
            return
        if op == "select":
            c = self.operand(ins.args[0], env)
            env[ins.dest] = ite_val(simp(c.t != 0), self.operand(ins.args[1], env), self.operand(ins.args[2], env))
            return
        if op in ("zext", "sext", "trunc"):
            a = self.operand(ins.args[0], env)
            w = self.ty(ins.ty).w
            if op == "zext":
                env[ins.dest] = IV(a.t if a.w == 1 else a.t % (1 << a.w), w)
            elif op == "sext":
                if o.int_nowrap and a.w > 1:
                    self.ub("ENC: value >= 2^%d used as signed (sext)" % (a.w - 1), ins, a.t >= (1 << (a.w - 1)))
                env[ins.dest] = IV(-a.t if a.w == 1 else a.t, w)
            else:
                env[ins.dest] = IV(a.t % 2 if w == 1 else iwrap(a.t, w), w)
            return
        if op == "freeze":
            env[ins.dest] = self.operand(ins.args[0], env)
            return
        if op == "extractvalue":
            a = self.operand(ins.args[0], env)
            for i in ins.extra:
                a = a[i]
            env[ins.dest] = a
            return
        if op == "insertvalue":
            agg = self.operand(ins.args[0], env)
            v = self.operand(ins.args[1], env)
            if len(ins.extra) != 1 or not isinstance(agg, tuple):
                raise Unsupported("nested insertvalue")
            lst = list(agg)
            lst[ins.extra[0]] = v
            env[ins.dest] = tuple(lst)
            return
        if op in ("fadd", "fsub", "fmul", "fdiv", "fneg", "fcmp", "sitofp", "uitofp", "fptosi", "fpext", "fptrunc"):
            if o.fp_mode != "real":
                raise Unsupported("floating point in INT mode needs fp_mode='real'")
            self.fpstep_real(ins, env)
            return
        if op == "load":
            p = self.operand(ins.args[0], env)
            v = simp(Exec.load(self, ins, p, ins.ty))
            if not z3.is_bv_value(v):
                raise Unsupported("load of a non-constant in INT mode")
            w = v.size()
            x = v.as_long()
            env[ins.dest] = IV(z3.IntVal(x - (1 << w) if (w > 1 and x >> (w - 1)) else x), w)
            return
        if op == "call":
            name = ins.extra
            if name.startswith("llvm.expect"):
                env[ins.dest] = self.operand(ins.args[0], env)
                return
            if name.startswith("llvm.lifetime") or name.startswith("llvm.dbg") or name.startswith("llvm.assume"):
                return
            if name.startswith("llvm.fmuladd") or name.startswith("llvm.fabs"):
                Exec.call(self, ins, env)
                return
            parts = name.split(".")
            if len(parts) >= 4 and parts[1] in ("sadd", "ssub", "smul", "uadd", "usub", "umul") and parts[2] == "with":
                a = self.operand(ins.args[0], env)
                b = self.operand(ins.args[1], env)
                w = a.w
                k = parts[1]
                if k[0] == "s":
                    x, y = a.t, b.t
                else:
                    x, y = a.t % (1 << w), b.t % (1 << w)
                if k.endswith("add"):
                    r = x + y
                elif k.endswith("sub"):
                    r = x - y
                elif o.mul_uf and self.const(a) is None and self.const(b) is None:
                    r = MULI(x, y)
                else:
                    r = x * y
                if k[0] == "s":
                    ov = z3.Not(self.rng(r, w))
                else:
                    ov = z3.Or(r < 0, r >= (1 << w))
                env[ins.dest] = (IV(iwrap(r, w), w), IV(z3.If(simp(ov), z3.IntVal(1), z3.IntVal(0)), 1))
                return
            if name.startswith("llvm.ctlz"):
                # count of leading zeros defined by its specification: 2^(w-1-c) <= x_unsigned < 2^(w-c), c = w for x = 0
                a = self.operand(ins.args[0], env)
                w = a.w
                if o.clz_const is not None:
                    k = o.clz_const
                    # case-split hint: the count is the constant k; "the argument is not in that class" is a side condition
                    self.ub("ENC: ctlz argument outside the case-split class (clz=%d)" % k, ins,
                            z3.Not(z3.And(a.t >= (1 << (w - 1 - k)), a.t < (1 << (w - k)))))
                    env[ins.dest] = IV(z3.IntVal(k), w)
                    return
                xu = a.t % (1 << w)
                c = self.fresh("clz", z3.IntSort())
                alts = [z3.And(c == k, xu >= (1 << (w - 1 - k)), xu < (1 << (w - k))) for k in range(w)]
                alts.append(z3.And(c == w, xu == 0))
                self.res.assumes.append(z3.Or(alts))
                zp = self.const(self.operand(ins.args[1], env))
                if zp == 1:
                    self.ub("ctlz of zero (poison)", ins, xu == 0)
                env[ins.dest] = IV(c, w)
                return
            if name.startswith("llvm.cttz"):
                raise Unsupported("cttz in INT mode")
            if name in o.stubs:
                args = [self.operand(a, env) for a in ins.args]
                if o.int_nowrap:
                    for v in args:
                        if isinstance(v, IV) and v.w > 1:
                            self.ub("ENC: value >= 2^%d passed to a callee (read as signed there)" % (v.w - 1), ins,
                                    v.t >= (1 << (v.w - 1)))
                r = o.stubs[name](Ctx(self.res, o, self.pc), args)
                self.res.calls.append((name, args, r))
                if ins.dest:
                    env[ins.dest] = r
                return
            raise Unsupported("call to %s in INT mode" % name)
        raise Unsupported("instruction %s in INT mode" % op)


def fcmp(pred, a, b):
    un = z3.Or(z3.fpIsNaN(a), z3.fpIsNaN(b))
    if pred == "ord":
        return z3.Not(un)
    if pred == "uno":
        return un
    if pred == "true":
        return z3.BoolVal(True)
    if pred == "false":
        return z3.BoolVal(False)
    base = {"eq": z3.fpEQ, "gt": z3.fpGT, "ge": z3.fpGEQ, "lt": z3.fpLT, "le": z3.fpLEQ,
            "ne": lambda x, y: z3.Not(z3.fpEQ(x, y))}[pred[1:]](a, b)
    if pred[0] == "o":
        if pred == "one":
            return z3.And(z3.Not(un), base)
        return base  # ordered comparisons are already false on NaN in SMT-LIB fp
    if pred == "une":
        return z3.Or(un, base)
    return z3.Or(un, base)


def is_pow2(q):
    if not z3.is_rational_value(q):
        return False
    n, d = q.numerator_as_long(), q.denominator_as_long()
    n = abs(n)
    return n > 0 and (n & (n - 1)) == 0 and (d & (d - 1)) == 0


def bits_to_fraction(kind, bits):
    import struct
    from fractions import Fraction
    if kind == "float":
        x = struct.unpack("<f", struct.pack("<I", bits))[0]
    else:
        x = struct.unpack("<d", struct.pack("<Q", bits))[0]
    fr = Fraction(x)
    return z3.Q(fr.numerator, fr.denominator)
