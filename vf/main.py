import argparse
import importlib
import json
import os
import sys
import time
import traceback

from . import core
from . import build as B
from .llparse import Unsupported


def main():
    ap = argparse.ArgumentParser()
    ap.add_argument("pid")
    ap.add_argument("--tier", default=os.environ.get("VERIF_TIER", "quick"))
    ap.add_argument("--only", action="append")
    ap.add_argument("--replay")
    a = ap.parse_args()
    tier = a.tier if a.tier in ("quick", "thorough") else "quick"
    try:
        seed = int(os.environ.get("VERIF_SEED", "0"))
    except ValueError:
        seed = 0
    pin = None
    only = a.only
    if a.replay:
        rp = json.load(open(a.replay))
        pin = {k: int(v) for k, v in rp.get("pin", {}).items()}
        only = [rp["obligation"].split("#")[0]]
    mod = importlib.import_module("vf.props." + a.pid)
    R = core.Run(a.pid, tier, seed, only=only, pin=pin)
    try:
        mod.run(R)
        rc = R.execute()
    except (Unsupported, B.BuildError) as e:
        # the current tree cannot be lowered / encoded: no verdict (never success, never a violation)
        print("INCONCLUSIVE property=%s: %s: %s" % (a.pid, type(e).__name__, e))
        R.obs = R.obs or []
        try:
            R.write_evidence()
        except Exception:
            pass
        rc = 2
    dt = time.time() - R.t0
    obs = R.obs
    print("%s tier=%s: %d obligations (%d verify discharged of %d, %d hunts, %d witnesses) wall %.1fs -> exit %d" % (
        a.pid, tier, len(obs), len([o for o in obs if o.kind == "verify" and o.verdict == "discharged"]),
        len([o for o in obs if o.kind == "verify"]), len([o for o in obs if o.kind == "hunt"]),
        len([o for o in obs if o.kind == "witness"]), dt, rc))
    sys.exit(rc)


if __name__ == "__main__":
    main()
