"""C04 integer <-> fixed conversion."""
import z3
from ..core import *
from .. import build as B

TO_FIXED = {"ctor": "fixed_t(n)", "a2f": "arithmetic_to_fixed<decltype(n), void>(n)", "mk": "make_fixed(n)", "i2f": "integral_to_fixed(n)"}
TO_INT = {"cast": "static_cast<%s>(a)", "f2i": "fixed_to_integral<%s>(a)", "f2a": "fixed_to_arithmetic<%s>(a)"}


def units():
    us = []
    for k in B.INTK:
        for n, e in TO_FIXED.items():
            us.append(B.Unit("%s_%s" % (n, k), [("n", k)], "i64", "return %s.v;" % e))
        for n, e in TO_INT.items():
            us.append(B.Unit("%s_%s" % (n, k), [("a", "fx")], k, "return %s;" % (e % B.CT[k])))
        us.append(B.Unit("rt_%s" % k, [("n", k)], k, "return static_cast<%s>(fixed_t(n));" % B.CT[k]))
    us.append(B.Unit("lit", [("n", "u64")], "i64", "return operator\"\"_fix(static_cast<unsigned long long>(n)).v;"))
    return us


def ext(n, k, to):
    return sx(n, to) if k in B.SIGNED else zx(n, to)


def run(R):
    W = 70
    LIM = (1 << 31) - 1
    stds = ["c++17", "c++20"] if R.quick() else ["c++17", "c++20", "c++2b"]
    R.bounds.append("every value of int8..int64 / uint8..uint64 (symbolic, full width); every finite raw value x every "
                    "target type; wrappers compiled under " + ", ".join(stds))
    a = BV("a")
    for std in stds:
        h = R.harness(std.replace("+", "x"), units(), std=std)
        t = std[3:]
        for k in B.INTK:
            w = B.WIDTH[k]
            n = BV("n", w)
            N = ext(n, k, W)
            inr = z3.And(N <= val(LIM, W), N >= val(-LIM, W))
            for u in TO_FIXED:
                c = R.call(h, "%s_%s" % (u, k), [n], std=std)
                R.verify("%s/%s_%s/exact-or-nan" % (t, u, k), [n], [c], z3.BoolVal(True),
                         z3.If(inr, sx(c.out, W) == N * val(65536, W), c.out == val(NAN)),
                         note="n -> fixed: n*65536 when |n| <= 2^31-1, NaN otherwise (n taken as its mathematical value)")
                R.verify_noub("%s/%s_%s/no-UB" % (t, u, k), [n], [c], z3.BoolVal(True))
            # fixed -> integral
            kf = sx(a >> 16, W)
            lo = -(1 << (w - 1)) if k in B.SIGNED else 0
            hi = (1 << (w - 1)) - 1 if k in B.SIGNED else (1 << w) - 1
            rep = z3.And(kf >= val(lo, W), kf <= val(hi, W))
            for u in TO_INT:
                c = R.call(h, "%s_%s" % (u, k), [a], std=std)
                R.verify("%s/%s_%s/floor-or-zero" % (t, u, k), [a], [c], finite(a),
                         z3.If(rep, ext(c.out, k, W) == kf, c.out == val(0, w)),
                         note="fixed -> T: k = floor(x) when representable in T, 0 otherwise")
                R.verify_noub("%s/%s_%s/no-UB" % (t, u, k), [a], [c], a != val(INT64_MIN))
            c = R.call(h, "rt_%s" % k, [n], std=std)
            R.verify("%s/rt_%s/round-trip" % (t, k), [n], [c], inr, c.out == n)
            R.witness("%s/rt_%s/reach" % (t, k), [n], [c], inr, c.out != val(0, w))
        n = BV("n", 64)
        c = R.call(h, "lit", [n], std=std)
        N = sx(n, W)   # the literal operator casts to int64 first
        inr = z3.And(N <= val(LIM, W), N >= val(-LIM, W))
        # the literal operator takes unsigned long long; only values below 2^63 have an unambiguous meaning
        R.verify("%s/lit/exact-or-nan" % t, [n], [c], n >= 0,
                 z3.If(inr, sx(c.out, W) == N * val(65536, W), c.out == val(NAN)))
