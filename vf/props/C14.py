"""C14 hypot."""
import z3
from fractions import Fraction
from ..core import *
from .. import build as B
from .. import encode as E
from .props_common import sqrt_stub_bv, sqrt_stub_int, sqrt_stub_int_floor, SQRT_SYM, SQRTF

UNITS = [B.Unit("hypot", [("a", "fx"), ("b", "fx")], "i64", "return hypot(a, b).v;"),
         B.Unit("hypot_rev", [("a", "fx"), ("b", "fx")], "i64", "return hypot(b, a).v;"),
         B.Unit("hypot_abs", [("a", "fx"), ("b", "fx")], "i64", "return hypot(abs(a), abs(b)).v;")]
LIM = 1 << 47
EPS_NUM, EPS_DEN = 3, 20000          # 1.5e-4


def exact_property(ins, outs):
    """the property itself, decided with exact integer arithmetic on one concrete run"""
    a, b = abs(ins["a"]), abs(ins["b"])
    r = outs[0]
    S = a * a + b * b
    if r < 0 or r in (NAN, -NAN):
        return False
    if a < (1 << 30) and b < (1 << 30):
        lo = max(r - 2, 0)
        return lo * lo <= S <= (r + 2) * (r + 2)
    # |r - sqrt(S)| <= eps * sqrt(S)   <=>   (1-eps)^2 S <= r^2 <= (1+eps)^2 S
    e = Fraction(EPS_NUM, EPS_DEN)
    return (1 - e) ** 2 * S <= r * r <= (1 + e) ** 2 * S


def run(R):
    h = R.harness("main", UNITS, noinline=[SQRT_SYM])
    a, b = BV("a"), BV("b")
    st = {SQRT_SYM: sqrt_stub_bv}
    D = z3.And(a < val(LIM), a > val(-LIM), b < val(LIM), b > val(-LIM))
    R.assume_note("fixedmath::sqrt is kept out of line and replaced by its C13 contract (both algorithms): r >= 0, "
                  "|r - sqrt(y)*65536| < 1; so one query covers both square-root algorithms")
    R.assume_note("accuracy is decided per bit-length class of the larger operand (the shift count is then a constant); inside "
                  "a class the SMT goal is a sufficient condition obtained from the bracketing u*2^s <= |a| < (u+1)*2^s and "
                  "monotonicity of squaring; any model is re-decided against the exact property (integer arithmetic) on the "
                  "real build before it is reported")
    # ------------------------------------------------------------------ symmetry, sign, never NaN
    def build_sym(ab, u2):
        # relational: sqrt only needs to be a function (same argument => same result), no contract
        o = E.Opts(stubs={SQRT_SYM: (lambda ctx, args: SQRTF(args[0]))} if ab else st, mul_uf=ab, clz_uf=ab)
        c1, c2 = R.call(h, "hypot", [a, b], opts=o), R.call(h, u2, [a, b], opts=o)
        return Ob("%s/equals-hypot" % u2, "verify", [a, b], [c1, c2], D, c1.out == c2.out, abstract=ab, comm_lemmas=False,
                  portfolio=("z3", "cvc5"), timeout=300, note="hypot(a,b) == hypot(b,a) == hypot(|a|,|b|) exactly")
    for u2 in ("hypot_rev", "hypot_abs"):
        ob = build_sym(True, u2)
        ob.fallback = lambda u2=u2: build_sym(False, u2)
        R._add(ob)
    ai, bi = z3.Int("a"), z3.Int("b")
    oi = E.Opts(int_mode=True, stubs={SQRT_SYM: sqrt_stub_int})
    R.functions.add("fixedmath::sqrt (contract stub)")
    R.assume_note("accuracy queries use the INT encoding of the IR (mathematical integers, wrap-around explicit where the IR "
                  "operation has no nsw/nuw, ctlz by its specification, real integer multiplication); validated against the "
                  "native build by differential execution on every run")
    # restrict to 0 <= b <= a (the rest follows from the symmetry obligations)
    base = z3.And(ai >= 0, bi >= 0, bi <= ai, ai < LIM)
    cz = R.call(h, "hypot", [val(0), val(0)], opts=E.Opts(stubs=st))
    R.verify("hypot/zero", [], [cz], z3.BoolVal(True), cz.out == val(0))
    cases = []
    # branch 1: a >= 2^30, bit length L in [31, 47], shift s = L - 16
    for L in range(31, 48):
        cases.append(("scaled-down/L=%d" % L, L, L - 16, "rel"))
    # branch 3 / 2: a < 2^30
    for L in range(1, 31):
        cases.append(("small/L=%d" % L, L, 0, "abs"))
    sel = cases
    if R.quick():
        keep = {"scaled-down/L=31", "scaled-down/L=32", "scaled-down/L=40", "scaled-down/L=47", "small/L=30", "small/L=29",
                "small/L=17", "small/L=16", "small/L=1", "small/L=8"}
        rest = [cs for cs in cases if cs[0] not in keep]
        R.rng.shuffle(rest)
        sel = [cs for cs in cases if cs[0] in keep] + rest[:4]
        R.bounds.append("quick tier: %d of %d bit-length classes of the larger operand (all branch boundaries 2^16, 2^30, both "
                        "ends, plus a VERIF_SEED sample); thorough: all 47 classes = every pair with |raw| < 2^47" % (
                            len(sel), len(cases)))
    else:
        R.bounds.append("every pair of raw values with |raw| < 2^47: 47 bit-length classes of the larger operand x symbolic "
                        "smaller operand, reduced to 0 <= b <= a by the proved symmetry")
    for (name, L, s, kind) in sel:
        dom = z3.And(base, ai >= (1 << (L - 1)), ai < (1 << L))
        # class hints: clz of the larger operand is 64-L, unsigned products/sums do not wrap; both are refuted-or-else
        # side conditions inside the same query (also_ub), so the encoding is exact on the class
        c = R.call(h, "hypot", [ai, bi], opts=E.Opts(int_mode=True, stubs={SQRT_SYM: sqrt_stub_int}, int_nowrap=True,
                                                      clz_const=64 - L))
        r = c.out
        if kind == "rel":
            # u = a >> s in [2^15, 2^16), v = b >> s ; a^2 + b^2 in [(u^2+v^2) 4^s, ((u+1)^2 + (v+1)^2) 4^s)
            u, v = ai / (1 << s), bi / (1 << s)
            lo = (u * u + v * v) * (1 << (2 * s))
            hi = ((u + 1) * (u + 1) + (v + 1) * (v + 1)) * (1 << (2 * s))
            rr = r * r
            n1, n2 = (EPS_DEN + EPS_NUM) ** 2, (EPS_DEN - EPS_NUM) ** 2
            d2 = EPS_DEN ** 2
            # r^2 <= (1+e)^2 * lo   and   r^2 >= (1-e)^2 * hi      (sufficient for every S in [lo, hi))
            goal = z3.And(r >= 0, r != NAN, rr * d2 <= lo * n1, rr * d2 >= hi * n2)
        else:
            S = ai * ai + bi * bi
            rm2 = z3.If(r >= 2, r - 2, 0)
            goal = z3.And(r >= 0, r != NAN, rm2 * rm2 <= S, S <= (r + 2) * (r + 2))
        ob = R.verify("hypot/acc/%s" % name, [ai, bi], [c], dom, goal, also_ub=True, exact=exact_property,
                      portfolio=("z3", "cvc5"), timeout=300 if R.quick() else 1200,
                      note=("relative error <= 1.5e-4" if kind == "rel" else "absolute error <= 2 ulp") +
                           ", result non-negative and not NaN, no UB; larger operand of bit length %d" % L)

        def exact_ob(L=L, dom=dom, name=name, kind=kind):
            # the goal above is a sufficient condition; when its models do not reproduce, the property itself is asked for
            # the abacus algorithm (sqrt = floor of the root, proved in C13) and replayed on the abacus build
            ce = R.call(h, "hypot", [ai, bi], opts=E.Opts(int_mode=True, stubs={SQRT_SYM: sqrt_stub_int_floor},
                                                           int_nowrap=True, clz_const=64 - L))
            r2 = ce.out
            S = ai * ai + bi * bi
            if kind == "rel":
                n1, n2, d2 = (EPS_DEN + EPS_NUM) ** 2, (EPS_DEN - EPS_NUM) ** 2, EPS_DEN ** 2
                g2 = z3.And(r2 >= 0, r2 != NAN, r2 * r2 * d2 <= S * n1, r2 * r2 * d2 >= S * n2)
            else:
                rm = z3.If(r2 >= 2, r2 - 2, 0)
                g2 = z3.And(r2 >= 0, r2 != NAN, rm * rm <= S, S <= (r2 + 2) * (r2 + 2))
            ab = ("-DFIXEDMATH_ENABLE_SQRT_ABACUS_ALGO",)
            o2 = Ob("hypot/acc/%s" % name, "verify", [ai, bi], [ce], dom, g2, exact=exact_property,
                    portfolio=("z3", "cvc5"), timeout=300 if R.quick() else 1200,
                    natives=[("g++", "-O0", ab), ("clang++-14", "-O2", ab)],
                    note="the property itself (not the sufficient condition) under the abacus square root")
            o2.tag = "exact-abacus"
            return o2
        if ob is not None:
            ob.fallback = exact_ob
    cw = R.call(h, "hypot", [ai, bi], opts=E.Opts(int_mode=True, stubs={SQRT_SYM: sqrt_stub_int}, int_nowrap=True,
                                                   clz_const=64 - 41))
    R.witness("hypot/reach-scaled", [ai, bi], [cw], z3.And(base, ai >= (1 << 40), ai < (1 << 41), bi >= (1 << 39)),
              cw.out > (1 << 40), portfolio=("z3", "cvc5"))
    vec = {"hypot": [[x, y] for x, y in ((0, 0), (1, 0), (3 << 16, 4 << 16), (1 << 30, 1 << 30), ((1 << 30) - 1, 5),
                                         (-(1 << 46), (1 << 46) + 12345), (65535, 65536), (100, 7), ((1 << 47) - 1, (1 << 47) - 1),
                                         (1 << 29, 65535), (1 << 29, 65536), (12345678901, -987654321))]}
    vec["hypot"] += [[R.rng.randrange(-(1 << 46), 1 << 46), R.rng.randrange(-(1 << 40), 1 << 40)] for _ in range(20)]
    vec["hypot"] += [[R.rng.randrange(-(1 << 20), 1 << 20), R.rng.randrange(-(1 << 29), 1 << 29)] for _ in range(20)]
    import math

    def native_sqrt(y):          # what the default run-time algorithm (std::sqrt) returns for raw y
        if y < 0:
            return NAN
        return int(math.sqrt(y / 65536.0) * 65536 + 0.5)
    if R.selfcheck_units(h, vec, opts=oi, uf_eval={"SQRTI": native_sqrt}):
        raise Unsupported("INT encoding disagrees with the native build (see ENCODER-MISMATCH lines)")
    cu = R.call(h, "hypot", [a, b], opts=E.Opts(stubs=st, mul_ovf="bits"))
    R.verify_noub("hypot/no-UB", [a, b], [cu], D, portfolio=("z3", "cvc5"), kind="hunt", timeout=120,
                  note="no UB for |a|, |b| < 2^47 (shift counts in range, no signed overflow; unsigned products may wrap by "
                       "definition)")
