"""C01 addition / subtraction exact or NaN."""
import z3
from ..core import *
from .. import build as B
from .. import encode as E

UNITS = [
    B.Unit("add", [("a", "fx"), ("b", "fx")], "i64", "return (a + b).v;"),
    B.Unit("sub", [("a", "fx"), ("b", "fx")], "i64", "return (a - b).v;"),
    B.Unit("addeq", [("a", "fx"), ("b", "fx")], "i64", "a += b; return a.v;"),
    B.Unit("subeq", [("a", "fx"), ("b", "fx")], "i64", "a -= b; return a.v;"),
    B.Unit("fadd", [("a", "fx"), ("b", "fx")], "i64", "return fixed_addition(a, b).v;"),
    B.Unit("fsub", [("a", "fx"), ("b", "fx")], "i64", "return fixed_substract(a, b).v;"),
]


def exact_goal(a, b, out, minus):
    A, Bx = sx(a, 66), sx(b, 66)
    s = A - Bx if minus else A + Bx
    inr = z3.And(s >= val(-M, 66), s <= val(M, 66))
    return z3.If(inr, sx(out, 66) == s, isnan_raw(out))


def run(R):
    h = R.harness("main", UNITS)
    a, b = BV("a"), BV("b")
    D = z3.And(finite(a), finite(b))
    R.bounds.append("all pairs of finite raw values (2^64-3 each), symbolic; no unrolling needed (loop-free)")
    for u in UNITS:
        minus = "sub" in u.name
        c = R.call(h, u.name, [a, b])
        R.verify("%s/exact-or-nan" % u.name, [a, b], [c], D, exact_goal(a, b, c.out, minus),
                 note="a%sb equals the 65-bit exact result when it lies in [lowest,max], else isnan" % ("-" if minus else "+"))
        R.verify_noub("%s/no-source-UB" % u.name, [a, b], [c], D,
                      note="no signed overflow in the C++ abstract machine for finite operands: the premise under which "
                           "every conforming compiler/level/inlining context returns the proved value")
        R.witness("%s/reach-nan" % u.name, [a, b], [c], D, isnan_raw(c.out))
        R.witness("%s/reach-finite" % u.name, [a, b], [c], D, z3.Not(isnan_raw(c.out)))
    # the same property decided on the code clang actually generates: the optimised IR (-O1/-O2/-O3) executed under machine
    # semantics.  A source-level proof does not see a wrong function attribute (e.g. a [[gnu::const]] on a compound assignment lets
    # the optimiser delete the call); the optimised IR does.
    R.bounds.append("the exact-or-NaN obligation is repeated on clang-14's -O1, -O2 and -O3 output of every wrapper")
    nat = [("g++", "-O0"), ("g++", "-O2"), ("g++", "-O3"), ("clang++-14", "-O0"), ("clang++-14", "-O1"), ("clang++-14", "-O2"),
           ("clang++-14", "-O3")]
    for u in UNITS:
        minus = "sub" in u.name
        for lv in ("O1", "O2", "O3"):
            c = R.call(h, u.name, [a, b], opts=E.Opts(machine=True, track_ub=False), ir=lv)
            R.verify("%s/exact-or-nan/clang-%s" % (u.name, lv), [a, b], [c], D, exact_goal(a, b, c.out, minus), natives=nat,
                     note="the optimised IR of the wrapper (clang -%s) returns the exact result or NaN for all finite operands" % lv)
