"""C17 algebraic laws."""
import z3
from ..core import *
from .. import build as B
from .. import encode as E


def units():
    fx2 = [("a", "fx"), ("b", "fx")]
    us = [B.Unit("add", fx2, "i64", "return (a + b).v;"), B.Unit("add_rev", fx2, "i64", "return (b + a).v;"),
          B.Unit("mul", fx2, "i64", "return (a * b).v;"), B.Unit("mul_rev", fx2, "i64", "return (b * a).v;"),
          B.Unit("sub", fx2, "i64", "return (a - b).v;"), B.Unit("add_neg", fx2, "i64", "return (a + (-b)).v;"),
          B.Unit("div", fx2, "i64", "return (a / b).v;"),
          B.Unit("sub_self", [("a", "fx")], "i64", "return (a - a).v;"),
          B.Unit("mul_one", [("a", "fx")], "i64", "return (a * fixed_t(1)).v;"),
          B.Unit("mul_ione", [("a", "fx")], "i64", "return (a * 1).v;"),
          B.Unit("mul_zero", [("a", "fx")], "i64", "return (a * fixed_t(0)).v;"),
          B.Unit("mul_izero", [("a", "fx")], "i64", "return (a * 0).v;"),
          B.Unit("div_one", [("a", "fx")], "i64", "return (a / fixed_t(1)).v;"),
          B.Unit("div_ione", [("a", "fx")], "i64", "return (a / 1).v;"),
          B.Unit("div_self", [("a", "fx")], "i64", "return (a / a).v;"),
          B.Unit("muln", [("a", "fx"), ("n", "i64")], "i64", "return (a * n).v;"),
          B.Unit("divn", [("a", "fx"), ("n", "i64")], "i64", "return (a / n).v;"),
          B.Unit("muln32", [("a", "fx"), ("n", "i32")], "i64", "return (a * n).v;"),
          B.Unit("divn32", [("a", "fx"), ("n", "i32")], "i64", "return (a / n).v;"),
          B.Unit("mulnu8", [("a", "fx"), ("n", "u8")], "i64", "return (a * n).v;"),
          B.Unit("divnu8", [("a", "fx"), ("n", "u8")], "i64", "return (a / n).v;"),
          B.Unit("mulnu32", [("a", "fx"), ("n", "u32")], "i64", "return (a * n).v;"),
          B.Unit("divnu32", [("a", "fx"), ("n", "u32")], "i64", "return (a / n).v;"),
          B.Unit("mulnu64", [("a", "fx"), ("n", "u64")], "i64", "return (a * n).v;"),
          B.Unit("divnu64", [("a", "fx"), ("n", "u64")], "i64", "return (a / n).v;"),
          B.Unit("lt", fx2, "bool", "return a < b;"), B.Unit("le", fx2, "bool", "return a <= b;")]
    return us


def run(R):
    h = R.harness("main", units())
    a, b, c = BV("a"), BV("b"), BV("c")
    n = BV("n")
    Fab = z3.And(finite(a), finite(b))
    S = z3.And(a < val(1 << 47), a > val(-(1 << 47)))
    nn = lambda x: z3.Not(isnan_raw(x))
    PF = ("z3", "cvc5", "cvc5int")
    R.bounds.append("all finite pairs / triples of raw values, all int64 n (symbolic); 'a*n == a added n times' by induction "
                    "on n (base 0, 1; step n -> n+1 and n -> n-1); operation sequences: chains of two and three operations "
                    "with symbolic operands")
    R.assume_note("products are MULW128 (uninterpreted) with commutativity, sign/magnitude lemma instances and, for the "
                  "induction step, the distributivity instance a*(n+1) == a*n + a (all valid bvmul identities, self-tested); "
                  "anything not unsat there is re-decided with real bvmul")
    C = lambda u, args, o=None: R.call(h, u, args, opts=o)

    def rel(name, inputs, mk, note="", lemmas=lambda: [], mk_int=None):
        """abstract (MULW) first; if that is not unsat: the INT encoding (exact, finds counterexamples of multiplicative
        laws in well under a second where bit-blasting a 64x64 multiplier does not finish), then precise BV"""
        def build(ab):
            o = E.Opts(mul_uf=True) if ab else E.Opts(wide_mul=True)
            calls, assume, goal = mk(o)
            return Ob(name, "verify", inputs, calls, assume, goal, note=note, portfolio=PF, abstract=ab,
                      extra_asserts=lemmas() if ab else [])

        def build_int():
            ins, calls, assume, goal = mk_int(E.Opts(int_mode=True))
            ob2 = Ob(name, "verify", ins, calls, assume, goal, note=note + " [INT encoding]", portfolio=("z3", "cvc5"),
                     timeout=60)
            ob2.tag = "int"
            ob2.fallback = lambda: build(False)
            return ob2
        ob = build(True)
        ob.fallback = build_int if mk_int is not None else (lambda: build(False))
        R._add(ob)

    ai, bi = z3.Int("a"), z3.Int("b")
    fin_i = lambda v: z3.And(v >= -M, v <= M)
    # commutativity, subtraction as addition of the negation
    c1, c2 = C("add", [a, b]), C("add_rev", [a, b])
    R.verify("add/commutative", [a, b], [c1, c2], Fab, c1.out == c2.out)
    rel("mul/commutative", [a, b],
        lambda o: (lambda x, y: ([x, y], Fab, x.out == y.out))(C("mul", [a, b], o), C("mul_rev", [a, b], o)),
        note="a*b == b*a bit for bit, all finite pairs",
        mk_int=lambda o: (lambda x, y: ([ai, bi], [x, y], z3.And(fin_i(ai), fin_i(bi)), x.out == y.out))(
            C("mul", [ai, bi], o), C("mul_rev", [ai, bi], o)))
    c1, c2 = C("sub", [a, b]), C("add_neg", [a, b])
    R.verify("sub/equals-add-neg", [a, b], [c1, c2], Fab, c1.out == c2.out)
    c1 = C("sub_self", [a])
    R.verify("sub/self-is-zero", [a], [c1], finite(a), c1.out == val(0))
    # identities on |a| < 2^31
    for u, exp in (("mul_one", a), ("mul_ione", a), ("mul_zero", val(0)), ("mul_izero", val(0)), ("div_one", a),
                   ("div_ione", a)):
        c1 = C(u, [a])
        R.verify("%s/identity" % u, [a], [c1], S, c1.out == exp, portfolio=PF)
    f128 = E.mulw(128)
    X128 = lambda x: z3.simplify(sx(x, 128))

    def distrib(xa, xb, y):
        """valid bvmul identity (mod 2^128): xa*y - xb*y == (xa-xb)*y ; constants are multiplied for real"""
        m = lambda p, q: (p * q) if (z3.is_bv_value(p) or z3.is_bv_value(q)) else f128(p, q)
        return m(xa, y) - m(xb, y) == m(z3.simplify(xa - xb), y)

    def build_ds(ab):
        o2 = E.Opts(div_spec=True, mul_uf=ab, wide_mul=not ab)
        c1 = C("div_self", [a], o2)
        c1.encode()
        q = c1.res.fresh[0]
        lem = [distrib(X128(q), val(65536, 128), X128(a))] if ab else []
        return Ob("div_self/is-one", "verify", [a], [c1], z3.And(S, a != 0), c1.out == val(65536), portfolio=PF,
                  abstract=ab, extra_asserts=lem, note="a / a == 1 for 0 < |a| < 2^31")
    ob = build_ds(True)
    ob.fallback = lambda: build_ds(False)
    R._add(ob)
    # (a+b)-b == a ; associativity ; monotonicity of +c  (all under 'no intermediate NaN')
    s1 = C("add", [a, b])
    s2 = R.call(h, "sub", [s1.out, b])
    R.verify("add-sub/cancels", [a, b], [s1, s2], z3.And(Fab, nn(s1.out), nn(s2.out)), s2.out == a)
    ab_, bc_ = C("add", [a, b]), C("add", [b, c])
    l_, r_ = R.call(h, "add", [ab_.out, c]), R.call(h, "add", [a, bc_.out])
    Fabc = z3.And(Fab, finite(c))
    R.verify("add/associative", [a, b, c], [ab_, bc_, l_, r_],
             z3.And(Fabc, nn(ab_.out), nn(bc_.out), nn(l_.out), nn(r_.out)), l_.out == r_.out)
    ac_, bc2 = C("add", [a, c]), C("add", [b, c])
    R.verify("add/monotone", [a, b, c], [ac_, bc2], z3.And(Fabc, a < b, nn(ac_.out), nn(bc2.out)), ac_.out <= bc2.out)
    # a*n as repeated addition: induction on n
    for u in ("muln", "muln32"):
        w = 64 if u == "muln" else 32
        nv = BV("n", w)
        c0 = C(u, [a, val(0, w)])
        R.verify("%s/base-0" % u, [a], [c0], finite(a), c0.out == val(0))
        c1 = C(u, [a, val(1, w)])
        R.verify("%s/base-1" % u, [a], [c1], finite(a), c1.out == a)
        for step, sgn in (("up", 1), ("down", -1)):
            def mk(o2, u=u, w=w, nv=nv, sgn=sgn):
                m1 = C(u, [a, nv], o2)
                m2 = C(u, [a, nv + val(sgn, w)], o2)
                addend = a if sgn == 1 else -a
                s = R.call(h, "add", [m1.out, addend], opts=o2)
                lim = nv != val((1 << (w - 1)) - 1 if sgn == 1 else -(1 << (w - 1)), w)
                return [m1, m2, s], z3.And(finite(a), lim, nn(m1.out), nn(m2.out), nn(s.out)), m2.out == s.out
            def lem(w=w, nv=nv, sgn=sgn):
                f = E.mulw(128)
                A = z3.simplify(sx(a, 128))
                N0 = z3.simplify(sx(nv, 128))
                N1 = z3.simplify(sx(nv + val(sgn, w), 128))
                lim = nv != val((1 << (w - 1)) - 1 if sgn == 1 else -(1 << (w - 1)), w)
                d = A if sgn == 1 else -A
                return [z3.Implies(lim, f(A, N1) == f(A, N0) + d)]
            rel("%s/induction-step-%s" % (u, step), [a, nv], mk,
                "a*(n%+d) == a*n %s a when none of them is NaN (with base cases: a*n equals a added n times)" % (
                    sgn, "+" if sgn == 1 else "-"), lemmas=lem)
    # (a*n)/n == a
    for mu, du, w, sg in (("muln", "divn", 64, True), ("muln32", "divn32", 32, True), ("mulnu8", "divnu8", 8, False),
                          ("mulnu32", "divnu32", 32, False), ("mulnu64", "divnu64", 64, False)):
        nv = BV("n", w)
        def build_mn(ab, mu=mu, du=du, w=w, nv=nv, sg=sg):
            o2 = E.Opts(div_spec=True, mul_uf=ab, wide_mul=not ab)
            m = C(mu, [a, nv], o2)
            d = R.call(h, du, [m.out, nv], opts=o2)
            d.encode()
            q = d.res.fresh[0]
            N128 = X128(nv) if sg else z3.simplify(zx(nv, 128))
            lem = [distrib(X128(a), X128(q), N128)] if ab else []
            if ab and not sg:
                from .C02 import sign_lemma
                lem.append(sign_lemma(a, N128))      # unsigned operands are multiplied as |a| * n with the sign restored
            return Ob("%s-%s/cancels" % (mu, du), "verify", [a, nv], [m, d],
                      z3.And(finite(a), nv != 0, nn(m.out), nn(d.out)), d.out == a, portfolio=PF, abstract=ab,
                      extra_asserts=lem, note="(a*n)/n == a for n != 0 when no intermediate NaN", timeout=120)
        ob = build_mn(True)
        ob.fallback = lambda f=build_mn: f(False)
        R._add(ob)
    # operation sequences of length 4:  (((a+b)*n)/n) - b == a
    nv = BV("n", 32)

    def build_seq(ab):
        o2 = E.Opts(div_spec=True, mul_uf=ab, wide_mul=not ab)
        s_ = C("add", [a, b], o2)
        m = R.call(h, "muln32", [s_.out, nv], opts=o2)
        d = R.call(h, "divn32", [m.out, nv], opts=o2)
        r = R.call(h, "sub", [d.out, b], opts=o2)
        d.encode()
        s_.encode()
        q = d.res.fresh[0]
        lem = [distrib(X128(s_.term), X128(q), X128(nv))] if ab else []
        return Ob("seq/add-muln-divn-sub", "verify", [a, b, nv], [s_, m, d, r],
                  z3.And(Fab, nv != 0, nn(s_.out), nn(m.out), nn(d.out), nn(r.out)), r.out == a, portfolio=PF,
                  abstract=ab, extra_asserts=lem, note="(((a+b)*n)/n)-b == a when no intermediate NaN", timeout=120)
    ob = build_seq(True)
    ob.fallback = lambda: build_seq(False)
    R._add(ob)
    # vacuity guards: the premises (no intermediate NaN) are satisfiable with non-trivial values
    o3 = E.Opts(wide_mul=True)
    m = C("muln32", [a, nv], o3)
    d = R.call(h, "divn32", [m.out, nv], opts=o3)
    R.witness("muln32-divn32/premise-reachable", [a, nv], [m, d],
              z3.And(finite(a), nv != 0, nv != 1, nn(m.out), nn(d.out)), z3.And(a != 0, d.out == a))
    s1 = C("add", [a, b])
    s2 = R.call(h, "sub", [s1.out, b])
    R.witness("add-sub/premise-reachable", [a, b], [s1, s2], z3.And(Fab, nn(s1.out), nn(s2.out)), z3.And(a != 0, b != 0))
    R.witness("add-sub/nan-reachable", [a, b], [s1], Fab, isnan_raw(s1.out))
    # the optimised code computes what the source computes (every wrapper, clang -O2)
    R.tv_guard(h, units())
