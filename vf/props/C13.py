"""C13 sqrt: within one ulp, NaN for negatives, both algorithms."""
import itertools
import z3
from ..core import *
from .. import build as B
from .. import encode as E

UNITS = [B.Unit("abacus", [("a", "fx")], "i64", "return detail::sqrt_abacus(a).v;"),
         B.Unit("stdm", [("a", "fx")], "i64", "return detail::sqrt_std_math(a).v;"),
         B.Unit("sqrt", [("a", "fx")], "i64", "return sqrt(a).v;")]
XLIM = 1 << 48     # the code's own guard; the property states [0, 2^47), callers (hypot) use up to 2^48
s64 = z3.BitVecSort(64)
SQ = z3.Function("SQ", s64, s64)      # squaring as an uninterpreted function; only binomial instances are used


def sqrt_contract(x, r, W=130):
    """0 <= x < 2^47:  r >= 0 and (r-1)^2 < x*2^16 < (r+1)^2  (|r - sqrt(x)*65536| < 1), r = 0 iff ... (r=0 => x*2^16 < 1)"""
    V = zx(x, W) << 16
    Rr = sx(r, W)
    return z3.And(r >= 0, z3.Or(Rr == 0, (Rr - 1) * (Rr - 1) < V), V < (Rr + 1) * (Rr + 1))


def stdm_contract(R, h, ranges, unit="stdm"):
    """sqrt_std_math satisfies |r - sqrt(x)*65536| < 1 on each (tag, lo, hi, advisory) range: real-arithmetic abstraction of the
    doubles with one relative rounding error per operation and the IEEE contract for libm sqrt (also used by C08)"""
    xi = z3.Int("x")

    def sqrt_stub(ctx, args):
        d = args[0]
        s = ctx.fresh("sqrt", z3.RealSort())
        e = ctx.fresh("dsq", z3.RealSort())
        eps = z3.Q(1, 2 ** 53)
        # IEEE-754: correctly rounded, so s = sqrt(d)*(1+e), |e| <= 2^-53; sqrt(negative) is NaN (handled separately)
        ctx.assume(z3.Implies(d.r >= 0, z3.And(s >= 0, e >= -eps, e <= eps, s * s == d.r * (1 + e) * (1 + e))))
        return E.RealFp(s, "double")
    def sqrtf_stub(ctx, args):
        d = args[0]
        s_ = ctx.fresh("sqrtf", z3.RealSort())
        e = ctx.fresh("dsqf", z3.RealSort())
        eps = z3.Q(1, 2 ** 24)
        ctx.assume(z3.Implies(d.r >= 0, z3.And(s_ >= 0, e >= -eps, e <= eps, s_ * s_ == d.r * (1 + e) * (1 + e))))
        return E.RealFp(s_, "float")
    fstubs = {"sqrt": sqrt_stub, "sqrtf": sqrtf_stub, "llvm.sqrt.f64": sqrt_stub, "llvm.sqrt.f32": sqrtf_stub}
    for fma in ("fused", "unfused"):
        o = E.Opts(int_mode=True, fp_mode="real", stubs=fstubs, fma=fma)
        c = R.call(h, unit, [xi], opts=o)
        r = c.out
        V = xi * 65536
        goal = z3.And(r >= 0, z3.Or(r == 0, (r - 1) * (r - 1) < V), V < (r + 1) * (r + 1))
        for (tag, lo_, hi_, adv) in ranges:
            R.verify("stdm/%s/within-1ulp%s" % (fma, tag), [xi], [c], z3.And(xi >= lo_, xi < hi_), goal, also_ub=True,
                     portfolio=("z3", "cvc5"), timeout=120, advisory=adv,
                     note="sqrt_std_math in real arithmetic with one relative rounding error per FP operation and the IEEE "
                          "contract for libm sqrt: |result - sqrt(x)*65536| < 1 for every x of the range")


def run(R):
    h = R.harness("main", UNITS)
    hab = R.harness("abacus17", [UNITS[2], UNITS[0]], defines=["FIXEDMATH_ENABLE_SQRT_ABACUS_ALGO"])
    h20 = R.harness("cxx20", UNITS, std="c++20")
    x = BV("a")
    R.bounds.append("both algorithms are verified on [0, 2^48) = up to the guard in the code (the property states [0, 2^47); "
                    "hypot passes arguments up to 2^48, so the contract used by C12/C14 is the wider one). "
                    "abacus: every raw x in [0, 2^48) by a loop invariant cut at the loop head (Init for all x, one Step per "
                    "power of four 4^0..4^31, Exit), cross-checked by plain unrolling for x < 2^12; std::sqrt algorithm: every "
                    "raw x in [0, 2^47) in the real-arithmetic abstraction with the IEEE contract for sqrt; every negative x")
    # ------------------------------------------------------------------ which algorithm does the public sqrt select
    for (hh, tag, other, std) in ((h, "c++17-default", "stdm", None), (h20, "c++20-runtime", "stdm", "c++20")):
        s64f = z3.Function("SQRTD", z3.Float64(), z3.Float64())
        st = {"sqrt": lambda ctx, args: s64f(args[0])}
        c1 = R.call(hh, "sqrt", [x], opts=E.Opts(stubs=st), std=std)
        c2 = R.call(hh, other, [x], opts=E.Opts(stubs=st), std=std)
        R.verify("sqrt/%s/is-std-algorithm" % tag, [x], [c1, c2], z3.BoolVal(True), c1.out == c2.out, portfolio=("z3",),
                 note="public sqrt at run time == detail::sqrt_std_math (libm sqrt as an uninterpreted function in both)")
    c1 = R.call(hab, "sqrt", [x], opts=E.Opts(unroll=33))
    c2 = R.call(hab, "abacus", [x], opts=E.Opts(unroll=33))
    R.verify("sqrt/c++17-abacus-define/is-abacus", [x], [c1, c2], z3.BoolVal(True), c1.out == c2.out,
             note="with FIXEDMATH_ENABLE_SQRT_ABACUS_ALGO the public sqrt is sqrt_abacus (same term, 33 unrollings each)")
    # ------------------------------------------------------------------ negatives, zero (both algorithms)
    ca = R.call(h, "abacus", [x], opts=E.Opts(unroll=1))
    R.verify("abacus/negative-nan", [x], [ca], x < 0, ca.out == val(NAN), also_ub=True)
    cz = R.call(h, "abacus", [val(0)], opts=E.Opts(unroll=1))
    R.verify("abacus/zero", [], [cz], z3.BoolVal(True), cz.out == val(0))
    cs = R.call(h, "stdm", [x])
    R.verify("stdm/negative-nan", [x], [cs], z3.And(x < 0, x != val(INT64_MIN)), cs.out == val(NAN), portfolio=("z3",),
             note="IEEE: sqrt of a negative double is NaN, which fails the range test of the conversion",
             timeout=120)
    cz = R.call(h, "stdm", [val(0)])
    R.verify("stdm/zero", [], [cz], z3.BoolVal(True), cz.out == val(0), portfolio=("z3",))
    # ------------------------------------------------------------------ abacus: plain BMC on small arguments
    small = 1 << 12
    cb = R.call(h, "abacus", [x], opts=E.Opts(unroll=16))
    R.verify("abacus/bmc-x<2^12", [x], [cb], z3.And(x >= 0, x < val(small)), sqrt_contract(x, cb.out, 96), also_ub=True,
             note="direct unrolling (16 iterations, unwinding assertion included): floor sqrt on x < 2^12")
    # ------------------------------------------------------------------ abacus: invariant
    abacus_invariant(R, h, x)
    # ------------------------------------------------------------------ std algorithm in the real abstraction
    stdm_contract(R, h, (("", 0, 1 << 47, False), ("/2^47..2^48 (lemma for hypot)", 1 << 47, XLIM, True)))
    R.assume_note("std algorithm: doubles are reals with |relative error| <= 2^-53 per rounding; int->double exact below 2^53 "
                  "(checked as a side condition), division by 65536 exact, libm sqrt correctly rounded (IEEE-754 / glibc); "
                  "monotonicity of the std algorithm is outside this abstraction and not claimed")
    R.assume_note("abacus: SQ is an uninterpreted squaring function constrained only by instances of (r+s)^2 = r^2+2rs+s^2, which "
                  "is proved as a polynomial identity; floor(sqrt) is monotone and exact on squares (mathematics), so those two "
                  "clauses follow from r^2 <= V < (r+1)^2")
    a_, b_ = z3.Ints("ra rb")
    R.verify("lemma/binomial-square", [a_, b_], [], z3.BoolVal(True), (a_ + b_) * (a_ + b_) == a_ * a_ + 2 * a_ * b_ + b_ * b_,
             note="the only fact about squaring used by the invariant proof")


def abacus_invariant(R, h, x):
    """cut sqrt_abacus at its loop head.  Roles of the three header phis are found by trying the permutations against Init."""
    probe = {}

    def cut_probe(hd, init, env):
        probe["init"] = dict(init)
        return init
    c0 = R.call(h, "abacus", [x], opts=E.Opts(unroll=1, loop_cut=cut_probe))
    c0.encode()
    def bmc_hunts(reason):
        """the invariant machinery does not apply to this loop shape: no proof beyond the small-x unrolling, but every
        bit-length class is still searched for a counterexample by plain unrolling (capped hunts)"""
        R.outside.append("sqrt_abacus: %s; the invariant proof is skipped, classes are only hunted by bounded unrolling" % reason)
        cbh = R.call(h, "abacus", [x], opts=E.Opts(unroll=40))
        for j in range(8, 32):
            lo, hi = (1 << (2 * j)) >> 16, ((1 << (2 * j + 2)) >> 16)
            dom = z3.And(x >= val(max(lo, 0)), x < val(min(hi, 1 << 47)), x >= 0)
            R.hunt("abacus/bmc-hunt-class-4^%d" % j, [x], [cbh], dom, sqrt_contract(x, cbh.out, 130),
                   portfolio=("z3", "cvc5"), timeout=60 if R.quick() else 600,
                   note="plain unrolling on the arguments whose first pwr4 is 4^%d (hunt)" % j)
        R._add(Ob("abacus/invariant/applicable", "verify", [], [], None, z3.BoolVal(True), note=reason))
    if c0.res.loop_init is None or len(c0.res.loop_init) != 3:
        bmc_hunts("the function no longer has a single loop with three loop-carried values")
        return
    names = list(c0.res.loop_init)
    D = z3.And(x >= 0, x < val(XLIM))
    V = x << 16
    # role matching by the initial values: res starts at 0, val at V, pwr4 at the highest power of four <= V
    role = {}
    for n in names:
        iv = z3.simplify(c0.res.loop_init[n])
        if z3.is_bv_value(iv) and iv.as_long() == 0:
            role["res"] = n
    rest = [n for n in names if n != role.get("res")]
    cands = [dict(role, val=a, p=b) for a, b in itertools.permutations(rest, 2)] if "res" in role else []
    chosen = None
    for cand in cands:
        iv = c0.res.loop_init[cand["val"]]
        s = z3.Solver()
        s.add(D, iv != V)
        if s.check() == z3.unsat:
            chosen = cand
            break
    if chosen is None:
        bmc_hunts("could not match the loop-carried variables to (result, value, pwr4)")
        return
    rn, vn, pn = chosen["res"], chosen["val"], chosen["p"]
    p0 = c0.res.loop_init[pn]
    # Init: pwr4 is 0 (V == 0) or a power of four with p <= V < 4p ; res == 0 ; val == V
    pow4 = z3.Or([p0 == val(1 << (2 * j)) for j in range(32)])
    init_goal = z3.And(c0.res.loop_init[rn] == val(0), c0.res.loop_init[vn] == V,
                       z3.If(V == 0, p0 == val(0), z3.And(pow4, z3.ULE(p0, V), z3.ULT(zx(V, 66), zx(p0, 66) << 2))))
    R.verify("abacus/invariant/init", [x], [], z3.And(D, c0.res.loop_init_cond), init_goal,
             extra_asserts=c0.res.assumes,
             note="on entry to the loop: result = 0, value = x<<16 =: V, pwr4 = highest power of four <= V (0 if V = 0)")
    R.functions.add("abacus")
    W = 66
    for j in range(32):
        p = 1 << (2 * j)
        rho = BV("rho")
        vv = BV("val")
        st = {rn: rho << (j + 1), vn: vv, pn: val(p)}
        c = R.call(h, "abacus", [x], opts=E.Opts(unroll=1, loop_cut=lambda hd, init, env, st=st: dict(st)))
        c.encode()
        r = c.res
        Vt = r.loop_init[vn]
        res_t = rho << (j + 1)
        hyp = z3.And(D, (rho & val((1 << (j + 1)) - 1)) == 0, z3.ULT(rho, val(1 << 32)),
                     z3.ULE(val(p), Vt), z3.ULE(SQ(rho), Vt), vv == Vt - SQ(rho),
                     z3.ULT(zx(vv, W), (zx(res_t, W) << 1) + val(4 * p, W)),
                     # root so far squared is a multiple of 4p... not needed; bound: rho^2 <= V < 2^63 gives rho < 2^32
                     )
        goals = []
        for (cond, nxt) in r.loop_next:
            pr, pv, pp = nxt[rn], nxt[vn], nxt[pn]
            alts = []
            for rho2, sq2 in ((rho, SQ(rho)), (rho + val(1 << j), SQ(rho) + (rho << (j + 1)) + val(p))):
                if j > 0:
                    shape = z3.And(pp == val(p >> 2), pr == (rho2 << j), pv == Vt - sq2, z3.ULE(sq2, Vt),
                                   z3.ULT(zx(pv, W), (zx(pr, W) << 1) + val(4 * (p >> 2), W)))
                else:
                    shape = z3.And(pp == val(0), pr == rho2, pv == Vt - sq2, z3.ULE(sq2, Vt),
                                   z3.ULE(zx(pv, W), zx(rho2, W) << 1))
                alts.append(shape)
            goals.append(z3.Implies(cond, z3.Or(alts)))
        back = z3.Or([cnd for cnd, _ in r.loop_next]) if r.loop_next else z3.BoolVal(False)
        goal = z3.And(goals + [back])      # with pwr4 = 4^j != 0 the body must run and come back to the head
        ubc = z3.Or([cnd for _, _, cnd in r.ub]) if r.ub else z3.BoolVal(False)
        ob = Ob("abacus/invariant/step-4^%d" % j, "verify", [x, rho, vv], [], hyp, z3.And(goal, z3.Not(ubc)),
                extra_asserts=r.assumes, portfolio=("z3", "cvc5"), abstract=True,
                note="one loop iteration from the invariant at pwr4 = 4^%d re-establishes it at 4^%d (SQ(rho + 2^j) = "
                     "SQ(rho) + rho*2^(j+1) + 4^j), without UB" % (j, j - 1))

        def bmc(j=j):
            # a failed inductive step is not a violation by itself (the pre-state may be unreachable, or the loop may be
            # correct under another invariant): decide the bit-length class of this step by plain unrolling
            cb = R.call(h, "abacus", [x], opts=E.Opts(unroll=34))
            lo, hi = (1 << (2 * j)) >> 16, ((1 << (2 * j + 2)) >> 16)
            dom = z3.And(x >= val(max(lo, 0)), x < val(min(hi, 1 << 47)), x >= 0)     # the property's own domain
            return Ob("abacus/bmc-class-4^%d" % j, "verify", [x], [cb], dom, sqrt_contract(x, cb.out, 130), also_ub=True,
                      portfolio=("z3", "cvc5"), timeout=120 if R.quick() else 900,
                      note="plain unrolling (34 iterations) on the arguments whose first pwr4 is 4^%d" % j)
        ob.fallback = bmc
        R._add(ob)
    # Exit: pwr4 == 0  =>  returns result with result^2 <= V < (result+1)^2
    rr, vv = BV("r"), BV("val")
    st = {rn: rr, vn: vv, pn: val(0)}
    c = R.call(h, "abacus", [x], opts=E.Opts(unroll=1, loop_cut=lambda hd, init, env: dict(st)))
    c.encode()
    Vt = c.res.loop_init[vn]
    hyp = z3.And(D, vv == Vt - SQ(rr), z3.ULE(SQ(rr), Vt), z3.ULE(zx(vv, W), zx(rr, W) << 1), z3.ULT(rr, val(1 << 32)))
    post = z3.And(c.term == rr, z3.Not(z3.Or([cnd for cnd, _ in c.res.loop_next])) if c.res.loop_next else z3.BoolVal(True),
                  z3.ULE(SQ(rr), Vt), z3.ULT(zx(Vt, W), zx(SQ(rr), W) + (zx(rr, W) << 1) + 1))
    R.verify("abacus/invariant/exit", [x, rr, vv], [], hyp, post, extra_asserts=c.res.assumes,
             note="pwr4 = 0: the loop is left and result r is returned with r^2 <= V < r^2 + 2r + 1 = (r+1)^2, i.e. "
                  "r = floor(sqrt(x * 2^16)): within one ulp below the real root, 0 for 0")
    R.witness("abacus/invariant/step-reach", [x], [c0], D, c0.res.loop_init[pn] == val(1 << 40))
