"""C02 multiplication."""
import z3
from ..core import *
from .. import build as B
from .. import encode as E


def units():
    us = [B.Unit("mul", [("a", "fx"), ("b", "fx")], "i64", "return (a * b).v;"),
          B.Unit("muleq", [("a", "fx"), ("b", "fx")], "i64", "a *= b; return a.v;"),
          B.Unit("fmul", [("a", "fx"), ("b", "fx")], "i64", "return fixed_multiply(a, b).v;")]
    for k in B.INTK:
        us.append(B.Unit("mulr_" + k, [("a", "fx"), ("n", k)], "i64", "return (a * n).v;"))
        us.append(B.Unit("mull_" + k, [("a", "fx"), ("n", k)], "i64", "return (n * a).v;"))
        us.append(B.Unit("muleq_" + k, [("a", "fx"), ("n", k)], "i64", "a *= n; return a.v;"))
    return us


def ext(n, k, to):
    return sx(n, to) if k in B.SIGNED else zx(n, to)


W = 128
PF = ("z3", "cvc5", "cvc5int")


def product(x, y, abstract):
    """exact 128-bit product of two 128-bit (extended) operands; abstract => the same MULW128 symbol the encoder uses"""
    x, y = z3.simplify(x), z3.simplify(y)
    if abstract:
        return E.mulw(W)(x, y)
    return x * y


def sign_lemma(a, N):
    """valid bvmul identity: sx(a)*N == (a<0 ? -(zx|a| * N) : zx|a| * N)  (mod 2^128)"""
    absa = z3.If(a < 0, -a, a)
    f = E.mulw(W)
    U = f(z3.simplify(zx(absa, W)), N)
    return f(z3.simplify(sx(a, W)), N) == z3.If(a < 0, -U, U)


def run(R):
    h = R.harness("main", units())
    a, b = BV("a"), BV("b")
    D = z3.And(finite(a), finite(b))
    R.bounds.append("fixed*fixed: all pairs of finite raw values; fixed*integer: every finite raw value x every value of each "
                    "of the 8 integral types, both operand orders and *=")
    R.assume_note("first pass: every symbolic*symbolic product (implementation and oracle) is the uninterpreted function "
                  "MULW128 plus instances of commutativity and of the sign identity sx(a)*n == +-(|a|*n); `unsat` there "
                  "implies `unsat` for real multiplication.  Anything else is re-decided with real bvmul (precise pass).")

    def layered(name, inputs, mk, note="", mk_int=None):
        """MULW abstraction -> INT encoding (exact; quick at finding counterexamples) -> precise BV"""
        def build(ab):
            o = E.Opts(mul_uf=True) if ab else E.Opts(wide_mul=True)
            calls, assume, goal, lem = mk(o, ab)
            return Ob(name, "verify", inputs, calls, assume, goal, note=note, portfolio=PF,
                      extra_asserts=lem if ab else [], abstract=ab)

        def build_int():
            ins, calls, assume, goal = mk_int(E.Opts(int_mode=True))
            ob2 = Ob(name, "verify", ins, calls, assume, goal, note=note + " [INT encoding]", portfolio=("z3", "cvc5"),
                     timeout=60)
            ob2.tag = "int"
            ob2.fallback = lambda: build(False)
            return ob2
        ob = build(True)
        ob.fallback = build_int if mk_int is not None else (lambda: build(False))
        R._add(ob)

    ai, bi = z3.Int("a"), z3.Int("b")
    fin_i = lambda v: z3.And(v >= -M, v <= M)
    nan_i = lambda v: z3.Or(v == NAN, v == -NAN)
    Di = z3.And(fin_i(ai), fin_i(bi))

    for u in ("mul", "muleq", "fmul"):
        def mk1(o, ab, u=u):
            c = R.call(h, u, [a, b], opts=o)
            P = product(sx(a, W), sx(b, W), ab)
            err = sx(c.out, W) * val(65536, W) - P
            return [c], D, z3.Or(isnan_raw(c.out), z3.And(err <= val(65536, W), err >= val(-65536, W))), []

        def mk2(o, ab, u=u):
            c = R.call(h, u, [a, b], opts=o)
            P = product(sx(a, W), sx(b, W), ab)
            return [c], z3.And(D, P < val(1 << 63, W), P > val(-(1 << 63), W)), z3.Not(isnan_raw(c.out)), []

        def mk3(o, ab, u=u):
            c = R.call(h, u, [a, b], opts=o)
            P = product(sx(a, W), sx(b, W), ab)
            return [c], z3.And(D, z3.Or(P > val(M << 16, W), P < val(-(M << 16), W))), isnan_raw(c.out), []

        def mi1(o, u=u):
            c = R.call(h, u, [ai, bi], opts=o)
            err = c.out * 65536 - ai * bi
            return [ai, bi], [c], Di, z3.Or(nan_i(c.out), z3.And(err <= 65536, err >= -65536))

        def mi2(o, u=u):
            c = R.call(h, u, [ai, bi], opts=o)
            return [ai, bi], [c], z3.And(Di, ai * bi < (1 << 63), ai * bi > -(1 << 63)), z3.Not(nan_i(c.out))

        def mi3(o, u=u):
            c = R.call(h, u, [ai, bi], opts=o)
            return [ai, bi], [c], z3.And(Di, z3.Or(ai * bi > (M << 16), ai * bi < -(M << 16))), nan_i(c.out)
        layered("%s/within-1ulp-or-nan" % u, [a, b], mk1,
                "a*b is NaN or |r*2^16 - a*b| <= 2^16 (one unit in the last place, either direction)", mk_int=mi1)
        layered("%s/not-nan-when-product-fits" % u, [a, b], mk2,
                "raw product fits int64 (|a*b| < 2^31) => result is not NaN", mk_int=mi2)
        layered("%s/nan-when-out-of-range" % u, [a, b], mk3, "exact product outside [lowest,max] => NaN", mk_int=mi3)
        c = R.call(h, u, [a, b])
        R.verify_noub_layered("%s/no-UB" % u, [a, b], lambda kw, u=u: [R.call(h, u, [a, b], opts=E.Opts(**kw))], D, portfolio=PF)
        R.witness("%s/reach-finite" % u, [a, b], [c], D, z3.And(z3.Not(isnan_raw(c.out)), c.out != 0))
        R.witness("%s/reach-nan" % u, [a, b], [c], D, isnan_raw(c.out))
    for k in B.INTK:
        n = BV("n", B.WIDTH[k])
        for u in ("mulr_", "mull_", "muleq_"):
            def mk(o, ab, u=u, k=k, n=n):
                c = R.call(h, u + k, [a, n], opts=o)
                N = z3.simplify(ext(n, k, W))
                P = product(sx(a, W), N, ab)
                inr = z3.And(P <= val(M, W), P >= val(-M, W))
                return [c], finite(a), z3.If(inr, sx(c.out, W) == P, isnan_raw(c.out)), [sign_lemma(a, N)]

            def mi(o, u=u, k=k):
                w = B.WIDTH[k]
                ni = z3.Int("n")
                c = R.call(h, u + k, [ai, ni], opts=o)
                nmath = ni if k in B.SIGNED else ni % (1 << w)
                P = ai * nmath
                dom = z3.And(fin_i(ai), ni >= -(1 << (w - 1)), ni < (1 << (w - 1)))
                return [ai, ni], [c], dom, z3.If(z3.And(P <= M, P >= -M), c.out == P, nan_i(c.out))
            layered("%s%s/exact-or-nan" % (u, k), [a, n], mk,
                    "fixed*integer: exact product in range, NaN otherwise (n = mathematical value of the operand)", mk_int=mi)
            R.verify_noub_layered("%s%s/no-UB" % (u, k), [a, n],
                                  lambda kw, u=u, k=k, n=n: [R.call(h, u + k, [a, n], opts=E.Opts(**kw))], finite(a), portfolio=PF)
        c = R.call(h, "mulr_" + k, [a, n])
        R.witness("mulr_%s/reach-nan" % k, [a, n], [c], finite(a), isnan_raw(c.out))
    # the optimised code computes what the source computes (every wrapper, clang -O2)
    R.tv_guard(h, units())
