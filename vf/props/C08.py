"""C08 results do not depend on compiler, optimisation level, language standard or evaluation time."""
import os
import subprocess
import z3
from ..core import *
from .. import build as B
from .. import encode as E
from . import C07

s64 = z3.BitVecSort(64)
SDIV, SREM = z3.Function("SDIV", s64, s64, s64), z3.Function("SREM", s64, s64, s64)
SQRTD = z3.Function("SQRTD", z3.Float64(), z3.Float64())


# equivalence over the whole 64-bit domain is out of reach for these (two unrolled 34-iteration loops; FP + uninterpreted
# sqrt + count-leading-zeros): full-width capped hunt, plus piecewise / per-class proofs where a finite domain is stated
HARD = {"sqrt_abacus", "hypot", "atan_index_aprox", "atan_aprox", "angle_arg_f32", "angle_arg_f64"}
# clang-14 -std=c++2b folds `if (std::is_constant_evaluated())` to true at run time (libstdc++ implements it with `if consteval`
# there), so the run-time sqrt of that configuration is sqrt_abacus while c++17 / c++20 use std::sqrt: these wrappers are not
# compared bit for bit between c++17 and c++2b (the two algorithms agree within 1 ulp by their C13 contract)
SQRT_2B = {"sqrt", "hypot", "asin", "acos"}


def ctx_units():
    fx2 = [("a", "fx"), ("b", "fx")]
    fx3 = fx2 + [("c", "fx")]
    U = B.Unit
    return [U("ctx_add_self", [("a", "fx")], "i64", "return (a + a).v;"),
            U("ctx_add_pos", fx2, "i64", "if( a > 0_fix && b > 0_fix ) return (a + b).v; return 0;"),
            U("ctx_add_neg", fx2, "i64", "if( a < 0_fix && b < 0_fix ) return (a + b).v; return 0;"),
            U("ctx_sub_mixed", fx2, "i64", "if( a > 0_fix && b < 0_fix ) return (a - b).v; return 0;"),
            U("ctx_acc3", fx3, "i64", "fixed_t s{a}; s += b; s += c; return s.v;"),
            U("ctx_add_isnan", fx2, "bool", "return isnan(a + b);"),
            U("ctx_mul_self", [("a", "fx")], "i64", "return (a * a).v;"),
            U("ctx_mul_pos", fx2, "i64", "if( a > 1_fix && b > 1_fix ) return (a * b).v; return 0;"),
            U("ctx_div_self", [("a", "fx")], "i64", "return (a / a).v;"),
            U("ctx_ceil_floor", [("a", "fx")], "i64", "return (ceil(a) - floor(a)).v;"),
            U("ctx_neg_abs", [("a", "fx")], "i64", "return abs(-a).v;"),
            U("ctx_scale", [("a", "fx"), ("n", "i32")], "i64", "return ((a * n) / n).v;")]


def dom_of(u, ins):
    d = []
    for (n, k), v in zip(u.params, ins):
        if k == "fx":
            d.append(v != val(INT64_MIN))
        if n == "r" and k == "int":
            d.append(v <= z3.BitVecVal(63, 32))
    return z3.And(d) if d else z3.BoolVal(True)


def run(R):
    R.level = "translation_validation"
    R.bounds.append("translation validation over all argument values (fixed_t: every raw value except INT64_MIN): clang-14 "
                    "-O1/-O2/-O3 output vs the source-faithful IR, and -std=c++17 vs c++20 vs c++2b, one SMT equivalence query "
                    "per wrapper; caller-context wrappers (a+a, guarded a+b, accumulation, a*a, (a*n)/n ...) included")
    R.outside.append("GCC's generated code and clang's back end (IR -> x86) are outside: for them the argument is C07's "
                     "source-level UB-freedom (a conforming compiler has no licence to change a defined result); GCC appears "
                     "in the replay matrix of every counterexample (g++ -O0/-O2)")
    R.outside.append("sqrt for raw x >= 2^48 (value >= 2^32): sqrt_abacus returns NaN by its guard while the std::sqrt algorithm "
                     "still returns a value; this is outside every stated domain (C13: x < 2^31) and is not compared")
    R.outside.append("series functions (sin, cos, tan, asin, acos, atan, atan2, *_angle) and t*phi/180 for a float t: equivalence is decided with "
                     "symbolic products / quotients as uninterpreted functions; where the optimiser restructures the "
                     "polynomial so that this abstraction is not enough the obligation is a capped hunt, not a proof")
    R.assume_note("optimised IR is executed under machine semantics (nsw/nuw/exact flags ignored, no poison); equality is "
                  "required for every input of the domain, on which C07 shows the source to be UB-free")
    R.assume_note("libm sqrt is the same uninterpreted function in both programs")
    R.outside.append("sqrt, hypot, asin, acos under clang-14 -std=c++2b: that compiler folds std::is_constant_evaluated() to true "
                     "at run time (libstdc++'s `if consteval` implementation), i.e. selects sqrt_abacus where c++17/c++20 select "
                     "std::sqrt; bit equality between c++17 and c++2b is therefore not claimed for these four (1 ulp by contract)")
    quick = R.quick()
    series = {"sin", "cos", "tan", "asin", "acos", "atan", "atan2"}
    core = C07.units()
    cc = C07.cc_units()
    ctxu = ctx_units()
    levels = ["O2"] if quick else ["O1", "O2", "O3"]
    stds = ["c++20"] if quick else ["c++20", "c++2b"]
    if quick:
        keep = {"neg", "abs", "ceil", "floor", "isnan", "fx_add", "fx_sub", "fx_mul", "fx_div", "fxeq_add", "fxeq_sub", "fxeq_mul",
                "fxeq_div", "eq_add_i32", "eq_mul_i32", "eq_div_u8", "eq_sub_f32", "cmp_lt", "shl", "shr",
                "hypot", "sqrt", "sqrt_abacus", "r_mul_i32", "l_sub_f32", "r_div_u64", "to_fixed_f64", "to_fixed_i64",
                "from_fixed_u8", "from_fixed_f32", "a2r_u8", "angle_arg_i16", "sin", "tan", "atan", "asin", "atan2"}
        core_sel = [u for u in core if u.name in keep]
        R.bounds.append("quick tier: %d core wrappers + all %d caller contexts + all table functions at -O2 and c++20; thorough: "
                        "all %d wrappers at -O1/-O2/-O3 and c++20/c++2b" % (len(core_sel), len(ctxu), len(core) + len(cc) + len(ctxu)))
    else:
        core_sel = core
    groups = [("h", core_sel + ctxu, False), ("cc", cc, True)]
    progs = 0
    for tag, us, with_cc in groups:
        h = R.harness(tag, us, with_cc=with_cc)
        for u in us:
            ins = [BV(n, B.WIDTH[k]) for n, k in u.params]
            D = dom_of(u, ins)
            unroll = C07.UNROLL.get(u.name, 1)
            variants = [("S", None, lv, None) for lv in levels] + [("S", None, "S", sd) for sd in stds
                                                                     if not (sd == "c++2b" and u.name in SQRT_2B)]
            for (ir1, std1, ir2, std2) in variants:
                name = "%s/%s-vs-%s" % (u.name, "S" if std2 is None else "c++17", ir2 if std2 is None else std2)
                progs += 1

                def build(ab, u=u, ins=ins, D=D, ir2=ir2, std2=std2, name=name, unroll=unroll, h=h):
                    st = {"sqrt": lambda ctx, args: SQRTD(args[0])}
                    kw = dict(unroll=unroll, stubs=st)
                    if ab:
                        kw.update(mul_uf=True, div_uf=(SDIV, SREM), div_uf_all=True)
                    c1 = R.call(h, u.name, ins, opts=E.Opts(**kw), ir="S")
                    c2 = R.call(h, u.name, ins, opts=E.Opts(machine=(ir2 != "S"), track_ub=False, **kw), ir=ir2, std=std2)
                    c1.encode()
                    # refinement: the optimised program must agree wherever the source execution has no UB (with libm sqrt
                    # uninterpreted the source can overflow on values the real sqrt never returns; those are excluded here
                    # and shown unreachable by C07)
                    pre = z3.And(D, z3.Not(c1.res.ub_any()))
                    hard = u.name in series or u.name in HARD or u.name.startswith(("sin_", "cos_", "tan_"))
                    kind = "hunt" if hard and not ab else "verify"
                    ob_ = Ob(name, kind, ins, [c1, c2], pre, c1.out == c2.out, abstract=ab, comm_lemmas=False,
                             portfolio=("z3", "cvc5") if ab else ("z3", "cvc5", "cvc5int"), timeout=60 if quick else 300,
                             note="same result bits for every argument: %s" % name)
                    ob_.cross_config = True
                    ob_.natives = [("g++", "-O0"), ("g++", "-O2"), ("g++", "-O3"), ("clang++-14", "-O0"), ("clang++-14", "-O1"),
                                   ("clang++-14", "-O2"), ("clang++-14", "-O3")]
                    return ob_
                ob = build(True)
                ob.fallback = lambda b=build: b(False)
                R._add(ob)
    R.extra_cov["programs"] = progs
    piecewise_tv(R, levels)
    # ------------------------------------------------------------------ the two square-root algorithms differ by at most one ulp
    y, r1, r2 = z3.Ints("y r1 r2")
    V = y * 65536
    con = lambda r: z3.And(r >= 0, z3.Or(r == 0, (r - 1) * (r - 1) < V), V < (r + 1) * (r + 1))
    R.verify("sqrt/algorithms-within-1ulp", [y, r1, r2], [], z3.And(y >= 0, y < (1 << 48), con(r1), con(r2)),
             z3.And(r1 - r2 <= 1, r2 - r1 <= 1), portfolio=("z3", "cvc5"),
             note="any two results satisfying the contract |r - sqrt(y)*65536| < 1 (proved for sqrt_abacus and sqrt_std_math "
                  "in C13) differ by at most one ulp")
    # the contract itself on the part of sqrt's domain that C13's property does not state: every x on which sqrt_abacus returns
    # a value (its own guard: x < 2^32, raw < 2^48) -- C08 quantifies over "every input on which a function is defined"
    from . import C13
    hs = R.harness("sq", C13.UNITS)
    C13.stdm_contract(R, hs, (("/x<2^31", 0, 1 << 47, False), ("/2^31<=x<2^32", 1 << 47, 1 << 48, False)))
    R.assume_note("the two square-root algorithms differ by at most one ulp on every x in [0, 2^32): sqrt_std_math meets the "
                  "contract |r - sqrt(x)*65536| < 1 there (obligations stdm/*, real-arithmetic abstraction of the doubles), "
                  "sqrt_abacus meets it by C13's loop invariant (proved for raw x < 2^48), and two values within the contract "
                  "differ by at most one (obligation sqrt/algorithms-within-1ulp)")
    # ------------------------------------------------------------------ constant evaluation accepts what run time computes
    consteval_check(R)


CONSTEVAL = [
    ("add", "fixed_t r = as_fixed({a}) + as_fixed({b});", 2), ("sub", "fixed_t r = as_fixed({a}) - as_fixed({b});", 2),
    ("mul", "fixed_t r = as_fixed({a}) * as_fixed({b});", 2), ("div", "fixed_t r = as_fixed({a}) / as_fixed({b});", 2),
    ("ceil", "fixed_t r = ceil(as_fixed({a}));", 1), ("floor", "fixed_t r = floor(as_fixed({a}));", 1),
    ("abs", "fixed_t r = abs(as_fixed({a}));", 1), ("sqrt", "fixed_t r = sqrt(as_fixed({a}));", 1),
    ("hypot", "fixed_t r = hypot(as_fixed({a}), as_fixed({b}));", 2), ("sin", "fixed_t r = sin(as_fixed({a}));", 1),
    ("cos", "fixed_t r = cos(as_fixed({a}));", 1), ("tan", "fixed_t r = tan(as_fixed({a}));", 1),
    ("asin", "fixed_t r = asin(as_fixed({a}));", 1), ("acos", "fixed_t r = acos(as_fixed({a}));", 1),
    ("atan", "fixed_t r = atan(as_fixed({a}));", 1), ("atan2", "fixed_t r = atan2(as_fixed({a}), as_fixed({b}));", 2),
    ("shl", "fixed_t r = as_fixed({a}) << 3;", 1), ("conv", "fixed_t r = fixed_t(static_cast<double>(as_fixed({a})));", 1),
    # floating operands outside the representable range: NaN, +-infinity, huge (defined: they convert to the fixed NaN, C05)
    ("conv_special", "fixed_t r = fixed_t( ({a}) == 0 ? std::numeric_limits<double>::quiet_NaN() : ({a}) < 0 ? "
                     "-std::numeric_limits<double>::infinity() : ({a}) < 70000 ? std::numeric_limits<double>::infinity() : 1e300 );", 1),
    ("conv_special_f", "fixed_t r = fixed_t( ({a}) == 0 ? std::numeric_limits<float>::quiet_NaN() : ({a}) < 0 ? "
                       "-std::numeric_limits<float>::infinity() : std::numeric_limits<float>::max() );", 1),
]


def consteval_check(R):
    """every call that returns a value at run time is accepted as a constant expression (C++20, where the library reports
    sqrt_constexpr_available) and yields the same bits: generated TU with constexpr evaluations of seeded and corner
    arguments, compiled by g++ and clang++ -std=c++20; the run-time values come from the same TU at -O0."""
    rng = R.rng
    corner = [0, 1, -1, 65536, -65536, 102944, 205887, 411774, (1 << 30) - 1, 1 << 30, (1 << 46), (1 << 47) - 1, -(1 << 46),
              M, -M, NAN, -NAN, 39321, 39322, 28672, 159744, (1 << 32), 70368744177664, 1073741823, 46341]
    vals = corner + [rng.randrange(-(1 << 47), 1 << 47) for _ in range(12)] + [rng.randrange(-(1 << 20), 1 << 20) for _ in range(12)]
    SQRT_DEP = {"sqrt", "hypot", "asin", "acos"}
    lines, n, kinds, argv = [], 0, [], []
    for name, tmpl, ar in CONSTEVAL:
        for i, a in enumerate(vals):
            b = vals[(i * 7 + 3) % len(vals)]
            body = tmpl.format(a="static_cast<int64_t>(%dll)" % a, b="static_cast<int64_t>(%dll)" % b)
            lines.append("constexpr int64_t ce_%d = []() constexpr { %s return r.v; }();" % (n, body))
            lines.append("int64_t rt_%d() { %s return r.v; }" % (n, body.replace("static_cast<int64_t>", "opaque")))
            kinds.append(name)
            argv.append(a)
            n += 1
    head = "#include <fixedmath/fixed_math.hpp>\n#include <cstdio>\n#include <cstdint>\n#include <limits>\nusing namespace fixedmath;\n" \
           "static_assert(sqrt_constexpr_available);\n" \
           "__attribute__((noinline)) int64_t opaque(long long v) { volatile long long x = v; return x; }\n" + "\n".join(lines)

    def cmp_line(i, same_algo):
        if same_algo or kinds[i] not in SQRT_DEP:
            return " if( rt_%d() != ce_%d ) { std::printf(\"MISMATCH %d %s\\n\"); bad++; }" % (i, i, i, kinds[i])
        if kinds[i] == "sqrt":
            if argv[i] < 0:
                # negative argument: both algorithms must give the NaN sentinel, bit for bit
                return " if( rt_%d() != ce_%d ) { std::printf(\"MISMATCH %d sqrt\\n\"); bad++; }" % (i, i, i)
            if not (0 <= argv[i] < (1 << 48)):
                return ""  # beyond sqrt's domain the abacus guard returns NaN while std::sqrt still produces a value
            return " { int64_t d = rt_%d() - ce_%d; if( d > 1 || d < -1 ) { std::printf(\"MISMATCH %d sqrt\\n\"); bad++; } }" % (i, i, i)
        return ""      # hypot / asin / acos at run time use the other square-root algorithm under c++20: not compared

    d = os.path.join(B.BUILD, "C08_consteval")
    os.makedirs(d, exist_ok=True)
    results = {}
    configs = [("c++20", [], False), ("c++17", ["-DFIXEDMATH_ENABLE_SQRT_ABACUS_ALGO"], True)]
    for std, defs, same_algo in configs:
        src = head + "\nint main(){ int bad=0;\n" + "\n".join(cmp_line(i, same_algo) for i in range(n)) + \
            "\n std::printf(\"checked %d bad %%d\\n\", bad); return bad!=0; }\n" % n
        path = os.path.join(d, "ce_%s.cc" % std.replace("+", "x"))
        open(path, "w").write(src)
        for cxx in ("g++", "clang++-14"):
            for opt in (("-O0", "-O2") if not R.quick() else ("-O2",)):
                exe = os.path.join(d, "ce_%s_%s_%s" % (cxx.replace("+", "x"), opt.strip("-"), std.replace("+", "x")))
                p = subprocess.run([cxx, "-std=" + std, opt, "-I" + B.INC, path, "-o", exe] + defs, stdout=subprocess.PIPE,
                                   stderr=subprocess.PIPE, text=True)
                key = "%s %s %s" % (cxx, opt, std)
                if p.returncode != 0:
                    results[key] = "NOT ACCEPTED AS CONSTANT EXPRESSION: " + p.stderr[-600:]
                    continue
                q = subprocess.run([exe], stdout=subprocess.PIPE, stderr=subprocess.PIPE, text=True)
                results[key] = q.stdout.strip().split("\n")[-1] if q.returncode == 0 else "DIFFERS: " + q.stdout[-400:]
    R.extra_cov["constant_evaluation"] = {"evaluations": n, "results": results}
    R.assume_note("constant evaluation: under -std=c++20 run time selects std::sqrt and constant evaluation sqrt_abacus, so there "
                  "sqrt is compared within 1 ulp and hypot/asin/acos only for acceptance; under -std=c++17 with "
                  "FIXEDMATH_ENABLE_SQRT_ABACUS_ALGO both use sqrt_abacus and every function is compared bit for bit")
    ok = all(v.startswith("checked") and v.endswith("bad 0") for v in results.values())
    R.verify("consteval/accepted-and-equal", [], [], z3.BoolVal(True), z3.BoolVal(ok),
             note="%d calls (corner and seeded arguments, including NaN and the inputs of every repaired defect) are accepted as "
                  "constant expressions by g++ and clang++ and give the run-time bits: %s" % (n, results))


def piecewise_tv(R, levels):
    """series functions: S-IR == optimised IR on every argument of the finite domains their properties state, piece by
    piece with the real multipliers (both programs evaluated in one query, no oracle)"""
    from .. import oracle as O
    us = [u for u in C07.units() if u.name in ("sin", "cos", "tan", "asin", "atan")]
    h = R.harness("pw", us)
    doms = {"sin": (-411774, 411774), "cos": (-411774, 411774), "tan": (-205887, 205887), "asin": (-39321, 39321),
            "atan": (-159744, 159744)}
    bits = 11
    total = 0
    for fn, (lo, hi) in doms.items():
        # tan: 2^10-value pieces (measured: a 2^11 piece costs 200-570 s, its two halves 40 s each)
        bits = 10 if fn == "tan" else 11
        ps = O.pieces(lo, hi, 1 << bits)
        if R.quick():
            R.rng.shuffle(ps)
            ps = ps[:2]
        for lv in levels:
            # every piece at -O2; at the other levels every 8th piece (thorough) - the optimiser pipelines of -O1/-O3 differ
            # from -O2 only in inlining/unrolling heuristics for this code
            pslv = ps if (lv == "O2" or R.quick()) else ps[::8]
            def piece_ob(l, hpc, b, fn=fn, lv=lv, depth=0):
                x, ins, dom = O.piece_var(l, hpc, b)
                st = {"sqrt": lambda ctx, args: SQRTD(args[0])}
                c1 = R.call(h, fn, [x], opts=E.Opts(stubs=st, track_ub=False), ir="S")
                c2 = R.call(h, fn, [x], opts=E.Opts(stubs=st, machine=True, track_ub=False), ir=lv)
                ob = Ob("%s/S-vs-%s/[%d,%d]" % (fn, lv, l, hpc), "verify", ins, [c1, c2], dom, c1.out == c2.out, portfolio=("z3",),
                        timeout=300 if R.quick() else 600,
                        note="source-faithful IR and clang %s output agree on every raw argument of the piece" % lv)
                if depth < 3 and hpc > l:
                    # a piece that gets no verdict in time is split into its aligned halves (up to three times)
                    def split(l=l, hpc=hpc, b=b, depth=depth):
                        mid = ((l >> (b - 1)) + 1) << (b - 1)
                        parts = [(l, min(mid - 1, hpc))] + ([(mid, hpc)] if mid <= hpc else [])
                        if len(parts) == 1:
                            return [piece_ob(parts[0][0], parts[0][1], b - 1, depth=depth + 1)]
                        return [piece_ob(pl, ph, b - 1, depth=depth + 1) for pl, ph in parts]
                    ob.fallback = split
                return ob
            for (l, hpc) in pslv:
                R._add(piece_ob(l, hpc, bits))
                total += 1
    R.outside.append("asin beyond 0.6 (the branch through sqrt) and atan beyond 39/16 are compared by the full-width hunts only")
    R.bounds.append("piecewise equivalence of sin, cos, tan, asin (series branch), atan (direct segments) between the source-faithful IR and the optimised IR on "
                    "their stated finite domains: %d piece queries this run (%s)" % (
                        total, "a VERIF_SEED sample of 2 pieces per function" if R.quick() else "every piece at -O2, every 8th at -O1/-O3"))
