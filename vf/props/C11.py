"""C11 atan / atan2."""
import z3
import mpmath as mp
from ..core import *
from .. import build as B
from .. import encode as E
from .. import oracle as O

mp.mp.dps = 50
UNITS = [B.Unit("atan", [("a", "fx")], "i64", "return atan(a).v;"),
         B.Unit("kernel", [("a", "i64")], "i64", "return detail::atan<16>(a);"),
         B.Unit("atan2", [("y", "fx"), ("x", "fx")], "i64", "return atan2(y, x).v;"),
         B.Unit("pidiv2", [], "i64", "return fixpidiv2.v;"),
         B.Unit("phi", [], "i64", "return phi.v;")]
KSYM = "_ZN9fixedmath6detail4atanILi16EEEll"
ATAN_SYM = "_ZN9fixedmath4atanENS_7fixed_tE"
W = 96
LIM = 1 << 47
TOL = mp.mpf("5e-5") * 65536          # 3.2768 ulp
SEG1 = 28672                          # 7/16
SEG5 = 159744                         # 39/16
s64 = z3.BitVecSort(64)
SDIV, SREM = z3.Function("SDIV", s64, s64, s64), z3.Function("SREM", s64, s64, s64)
ATANK = z3.Function("ATANK", z3.IntSort(), z3.IntSort())
EPS_K = mp.mpf("1.6")                 # kernel accuracy proved piecewise (ulp)
ZMAX = 26888                          # 65536*65536/159744 rounded up: largest kernel argument of segment x >= 39/16
KMAX = 25515                          # kernel(z) <= KMAX for z <= ZMAX (proved with the kernel pieces); 77429 + 25515 = fixpidiv2


def acc_piece(R, h, unit, lo, hi, bits, tol_ulp, tag, opts_extra=None):
    enc = O.enclose(*O.ATAN, lo, hi)
    T = int(mp.floor(tol_ulp * mp.mpf(2) ** O.SC)) - 2
    x, ins, dom = O.piece_var(lo, hi, bits)

    def build(ab):
        c = R.call(h, unit, [x], opts=E.Opts(mul_ovf="bits" if ab else "exact"))
        goal = z3.And(O.within(enc, x, c.out, z3.BitVecVal(T, W), W), c.out >= 0)
        if unit == "kernel":
            goal = z3.And(goal, z3.Implies(x >= val(1), c.out >= val(1)))     # atan q > 0 for q > 0 (contract of atan2's stub)
            # used by atan/bounded: on the arguments segment 5 can produce the kernel stays below pi/2 - atan(39/16)
            goal = z3.And(goal, z3.Implies(x <= val(ZMAX), c.out <= val(KMAX)))
        return Ob("%s/acc/[%d,%d]" % (tag, lo, hi), "verify", ins, [c], dom, goal, also_ub=True, portfolio=("z3",),
                  abstract=ab, timeout=300 if R.quick() else 900,
                  note="|%s(x) - atan x| <= %s ulp, result >= 0 and no UB on the piece" % (tag, mp.nstr(tol_ulp, 5)))
    ob = build(True)
    ob.fallback = lambda: build(False)
    R._add(ob)


def run(R):
    h = R.harness("main", UNITS)
    hk = R.harness("kstub", UNITS[:1] + UNITS[3:], noinline=[KSYM])
    a = BV("a")

    def const_of(u):
        cc = R.call(h, u, [])
        cc.encode()
        e = z3.simplify(cc.term)
        if not z3.is_bv_value(e):
            raise Unsupported("constant %s is not constant in the IR" % u)
        return B.to_signed(e.as_long(), 64)
    PIDIV2 = const_of("pidiv2")
    R.extra_cov["constants_from_ir"] = {"fixpidiv2": PIDIV2}
    R.assume_note("5e-5 = %s ulp.  Segment x >= 39/16 is decided compositionally: the series kernel detail::atan<16> is kept out "
                  "of line and replaced by an uninterpreted function; Lemma A (INT query over every x of the segment) bounds "
                  "the distance of its argument z from (x-c)/(1+xc) (resp. 1/x) and shows result = constant +- kernel(z); "
                  "Lemma B (piecewise) bounds |kernel(z) - atan z| <= %s ulp on the reachable z; glue: atan x = atan c + "
                  "atan((x-c)/(1+xc)), atan x = pi/2 - atan(1/x), atan is 1-Lipschitz (trusted mathematics)" % (
                      mp.nstr(TOL, 6), mp.nstr(EPS_K, 3)))
    # ------------------------------------------------------------------ oddness and bound, every x
    def build_odd(ab):
        o = E.Opts(mul_uf=True, div_uf=(SDIV, SREM), div_uf_all=True) if ab else E.Opts()
        c1, c2 = R.call(h, "atan", [a], opts=o), R.call(h, "atan", [-a], opts=o)
        return Ob("atan/odd", "verify", [a], [c1, c2], z3.And(a < val(LIM), a > val(-LIM), a != 0), c2.out == -c1.out,
                  abstract=ab, comm_lemmas=False, note="atan(-x) == -atan(x) exactly for every |x| < 2^31")
    def odd_split():
        # the abstraction is not enough (or the code changed): decide oddness with the real arithmetic per segment of |x| (the
        # implementation's own branch points), the reciprocal segment |x| >= 65536 included
        out = []
        cuts = [1, SEG1, 45056, 77824, SEG5, 1 << 32, LIM]
        for lo, hi in zip(cuts[:-1], cuts[1:]):
            c1, c2 = R.call(h, "atan", [a]), R.call(h, "atan", [-a])
            out.append(Ob("atan/odd/|x| in [%d,%d)" % (lo, hi), "verify", [a], [c1, c2], z3.And(a >= val(lo), a < val(hi)),
                          c2.out == -c1.out, portfolio=("z3", "cvc5", "cvc5int"), timeout=120 if R.quick() else 600,
                          note="atan(-x) == -atan(x) exactly on one segment of the implementation, real arithmetic"))
        return out
    ob = build_odd(True)
    ob.fallback = odd_split
    R._add(ob)
    c0 = R.call(h, "atan", [val(0)])
    R.verify("atan/odd-at-zero", [], [c0], z3.BoolVal(True), c0.out == val(0))
    # ------------------------------------------------------------------ Lemma B: kernel on [0, SEG1)  (= segment 1 itself)
    kp = [(lo, hi, 10) for lo, hi in O.pieces(0, SEG1 - 1, 1024)]
    # ------------------------------------------------------------------ segments 2-4 directly
    dp = [(lo, hi, 10) for lo, hi in O.pieces(SEG1, SEG5 - 1, 1024)]
    if R.quick():
        marks = {0, SEG1 - 1, SEG1, 45055, 45056, 77823, 77824, SEG5 - 1, ZMAX, ZMAX - 1024}
        def pick(ps, n):
            must = [p for p in ps if any(p[0] <= mk <= p[1] for mk in marks)]
            rest = [p for p in ps if p not in must]
            R.rng.shuffle(rest)
            return must + rest[:n]
        import math
        gk = R.tightest_pieces(h, "kernel", kp, lambda x: 65536 * math.atan(x / 65536.0), lambda x: float(EPS_K), k=4)
        gd = R.tightest_pieces(h, "atan", dp, lambda x: 65536 * math.atan(x / 65536.0), lambda x: float(TOL), k=8)
        kp, dp = pick(kp, 3), pick(dp, 6)
        kp += [p for p in gk if p not in kp]
        dp += [p for p in gd if p not in dp]
        R.bounds.append("quick tier: %d kernel pieces and %d direct pieces (segment boundaries plus a VERIF_SEED sample); "
                        "Lemma A queries are always full-range" % (len(kp), len(dp)))
    else:
        R.bounds.append("kernel: every z in [0, 28672); atan directly: every raw x in [28672, 159744); x >= 159744 up to 2^47 "
                        "compositionally (Lemma A over the whole range as INT queries); negative x by the proved oddness")
    for lo, hi, bits in kp:
        acc_piece(R, h, "kernel", lo, hi, bits, EPS_K, "kernel")
    for lo, hi, bits in dp:
        acc_piece(R, h, "atan", lo, hi, bits, TOL, "atan")
    # ------------------------------------------------------------------ segment 5 and beyond: Lemma A in INT mode
    xi = z3.Int("x")
    captured = {}

    def kstub_factory(store):
        def kstub_(ctx, args):
            z = args[0].t
            store.setdefault("z", []).append((ctx.cond, z))
            return E.IV(ATANK(z), 64)
        return kstub_
    kstub = kstub_factory(captured)
    oi = E.Opts(int_mode=True, stubs={KSYM: kstub})
    ck = R.call(hk, "atan", [xi], opts=oi)
    ck.encode()
    zs = captured.get("z", [])
    # the kernel argument actually used on the path taken: select by path condition
    zsel = z3.IntVal(0)
    for cond, z in zs:
        zsel = z3.If(cond, z, zsel)
    # constants: atan(39/16)*65536 and pi/2*65536
    C5 = mp.atan(mp.mpf(39) / 16) * 65536
    c5lo, c5hi = int(mp.floor(C5)), int(mp.ceil(C5))
    # Lemma A (x in [SEG5, 2^47)):  out == K + ATANK(z) with K in {floor, ceil}(atan(39/16)*65536), 0 <= z < SEG1, and
    #   |z - Z*| <= 3/2 where Z* = (x - c) * 2^32 / (2^32 + x*c)      <=>   |2 z D - 2 N| <= 3 D  with N=(x-c)2^32, D=2^32+xc
    c = SEG5
    N = (xi - c) * (1 << 32)
    D = (1 << 32) + xi * c
    # Lemma B (kernel pieces): 0 <= kernel(z) <= KMAX on [0, ZMAX]
    kbound = z3.Implies(z3.And(zsel >= 0, zsel <= ZMAX), z3.And(ATANK(zsel) >= 0, ATANK(zsel) <= KMAX))
    dz = zsel * D - N
    lemmaA = z3.And(zsel >= 0, zsel <= ZMAX, dz <= D, dz >= -D,
                    z3.Or(ck.out == c5lo + ATANK(zsel), ck.out == c5hi + ATANK(zsel)))
    # after the repair large arguments use atan x = pi/2 - atan(1/x): out == fixpidiv2 - ATANK(z), |z - 2^32/x| <= 1
    lemmaR = z3.And(zsel >= 0, zsel <= ZMAX, zsel * xi <= (1 << 32), (zsel + 1) * xi > (1 << 32),
                    ck.out == PIDIV2 - ATANK(zsel))
    R.verify("atan/lemmaA/x>=39/16", [xi], [ck], z3.And(xi >= SEG5, xi < LIM, kbound), z3.Or(lemmaA, lemmaR), also_ub=True,
             portfolio=("z3", "cvc5"), timeout=300,
             note="for every raw x in [159744, 2^47): no UB, result = atan(39/16) + kernel(z) with |z - (x-c)/(1+xc)| <= 1 ulp, "
                  "or result = pi/2 - kernel(z) with |z - 1/x| <= 1 ulp; 0 <= z <= 26888")
    R.witness("atan/lemmaA/reach", [xi], [ck], z3.And(xi >= (1 << 40), xi < LIM), zsel >= 0, portfolio=("z3", "cvc5"))
    # error budget (constant inequality): |K - atan c| + eps_k + 1 <= TOL   and   |pidiv2 - pi/2| + eps_k + 1 + (1/x)^3/3 <= TOL
    budgetA = max(abs(c5lo - C5), abs(c5hi - C5)) + EPS_K + 1
    budgetR = abs(PIDIV2 - mp.pi / 2 * 65536) + EPS_K + 1 + mp.mpf("0.01")
    R.extra_cov["error_budget_ulp"] = {"segment5": mp.nstr(budgetA, 6), "reciprocal": mp.nstr(budgetR, 6), "allowed": mp.nstr(TOL, 6)}
    ok = z3.BoolVal(bool(budgetA <= TOL and budgetR <= TOL))
    R.verify("atan/error-budget", [], [], z3.BoolVal(True), ok,
             note="|K - atan c| + eps_kernel + eps_z <= 5e-5 (constant arithmetic with mpmath)")
    # ------------------------------------------------------------------ bound |atan x| <= fixpidiv2
    R.verify("atan/bounded/x>=39/16", [xi], [ck], z3.And(xi >= SEG5, xi < LIM, kbound),
             z3.And(ck.out >= 0, ck.out <= PIDIV2), portfolio=("z3", "cvc5"), timeout=300,
             note="0 <= atan(x) <= fixpidiv2 for every x in [159744, 2^47), given the kernel bound that follows from Lemma B; "
                  "below 159744 the accuracy pieces bound the result; negative x by oddness")
    monotone_and_atan2(R, h, hk, oi, kstub_factory, PIDIV2, kp, dp)
    vec = {"atan": [[v] for v in (0, 1, 28671, 28672, 45056, 77824, 159743, 159744, 1 << 20, 1 << 30, (1 << 40) + 5,
                                  (1 << 45) + 12345, (1 << 46) + 999, (1 << 47) - 1, -5, -(1 << 33))]}
    import math

    def kern(z):
        nat = hk.native("g++", "-O0")
        return B.to_signed(h.native("g++", "-O0").run([("kernel", [B.to_unsigned(z, 64)])])[0], 64)
    if R.selfcheck_units(hk, vec, opts=oi, uf_eval={"ATANK": kern}):
        raise Unsupported("INT encoding disagrees with the native build (see ENCODER-MISMATCH lines)")


ATANF = z3.Function("ATANF", s64, s64)


def monotone_and_atan2(R, h, hk, oi, kstub_factory, PIDIV2, kp, dp):
    # ------------------------------------------------------------------ weak monotonicity
    # (1) adjacent steps on the directly verified range [0, 159744): atan(x) <= atan(x+1)
    # (2) kernel adjacent steps on [0, ZMAX]: kernel(z) <= kernel(z+1)
    # (3) x >= 159744: the kernel argument is monotone in x (INT), result = K + kernel(z) resp. pi/2 - kernel(z)
    # together: x <= y => atan x <= atan y + 1 ulp on [0, 2^47) (the property allows 2), and by oddness on (-2^47, 0]
    for (lo, hi, bits) in dp + kp:
        unit = "kernel" if hi < SEG1 else "atan"
        if lo >= SEG1:
            unit = "atan"
        x, ins, dom = O.piece_var(lo, hi, bits)
        c1, c2 = R.call(h, unit, [x]), R.call(h, unit, [x + 1])
        goal = c1.out <= c2.out
        if unit == "kernel":
            goal = z3.And(goal, c2.out <= c1.out + 1)       # used for the weak monotonicity of segment x >= 39/16
        R.verify("%s/mono/[%d,%d]" % (unit, lo, hi), ins, [c1, c2], dom, goal, portfolio=("z3",),
                 timeout=300 if R.quick() else 900, note="adjacent-step monotonicity %s(x) <= %s(x+1)%s on the piece" % (
                     unit, unit, " <= kernel(x) + 1" if unit == "kernel" else ""))
    xi = z3.Int("x")
    st1, st2 = {}, {}
    c1 = R.call(hk, "atan", [xi], opts=E.Opts(int_mode=True, stubs={KSYM: kstub_factory(st1)}))
    c2 = R.call(hk, "atan", [xi + 1], opts=E.Opts(int_mode=True, stubs={KSYM: kstub_factory(st2)}))
    c1.encode()
    c2.encode()

    def sel(store):
        z = z3.IntVal(0)
        for cond, t in store.get("z", []):
            z = z3.If(cond, t, z)
        return z
    z1, z2 = sel(st1), sel(st2)
    T32 = 1 << 32
    # segment 39/16 <= x < 65536: the computed kernel argument z is NOT monotone (the truncated denominator makes a sawtooth),
    # but z - Z* lies in (-1, 1/10] with Z* = (x-c)/(1+xc) increasing (calculus), hence x <= y => z(x) <= z(y) + 1, and with
    # kernel(z) <= kernel(z+1) <= kernel(z) + 1:  atan(x) <= atan(y) + 1 ulp on the segment
    cN = SEG5
    Nn = (xi - cN) * (1 << 32)
    Dd = (1 << 32) + xi * cN
    dzz = z1 * Dd - Nn
    R.verify("atan/mono/kernel-argument/39/16<=x<65536", [xi], [c1], z3.And(xi >= SEG5, xi < T32),
             z3.And(dzz > -Dd, 10 * dzz <= Dd), portfolio=("z3", "cvc5"), timeout=300,
             note="segment x >= 39/16: -1 < z - (x-c)/(1+xc) <= 1/10 for the kernel argument z as computed, every x")
    R.verify("atan/mono/kernel-argument/x>=65536", [xi], [c1, c2], z3.And(xi >= T32, xi + 1 < LIM), z1 >= z2,
             portfolio=("z3", "cvc5"), timeout=300,
             note="x >= 65536: the kernel argument 1/x as computed is non-increasing in x (result = pi/2 - kernel)")
    for (u, v) in ((SEG1 - 1, SEG1), (SEG5 - 1, SEG5), (T32 - 1, T32)):
        ca, cb = R.call(h, "atan", [val(u)]), R.call(h, "atan", [val(v)])
        R.verify("atan/mono/boundary-%d" % v, [], [ca, cb], z3.BoolVal(True), ca.out <= cb.out,
                 note="the two sides of a segment boundary are ordered")
    # ------------------------------------------------------------------ atan2
    h2 = R.harness("atan2", [UNITS[2]], noinline=[ATAN_SYM])
    y, x = BV("y"), BV("x")
    PHI = 205887
    cap = []

    def astub(ctx, args):
        q = args[0]
        cap.append((ctx.cond, q))
        r = ATANF(q)
        # contract of atan proved above: odd, 0 < atan(q) <= fixpidiv2 for q > 0, atan 0 = 0
        ctx.assume(z3.And(z3.Implies(q > 0, z3.And(r > 0, r <= val(PIDIV2))),
                          z3.Implies(z3.And(q < 0, q != val(INT64_MIN)), z3.And(r < 0, r >= val(-PIDIV2))),
                          z3.Implies(q == 0, r == 0)))
        return r
    o2 = E.Opts(stubs={ATAN_SYM: astub}, div_spec=True, mul_uf=True)
    c = R.call(h2, "atan2", [y, x], opts=o2)
    c.encode()
    D = z3.And(y < val(LIM), y > val(-LIM), x < val(LIM), x > val(-LIM))
    qsel = val(0)
    for cond, q in cap:
        qsel = z3.If(cond, q, qsel)
    R.assume_note("atan2: fixedmath::atan is kept out of line and replaced by an uninterpreted function with the contract proved "
                  "above (odd, 0 <= atan q <= fixpidiv2 for q >= 0, atan 0 = 0); accuracy 8e-5 = 5e-5 (atan) + 1 ulp (quotient, "
                  "atan is 1-Lipschitz) + |phi - pi| <= %s ulp, a constant inequality" % mp.nstr(TOL + 1 + abs(PHI - mp.pi * 65536), 5))
    R.verify("atan2/origin-nan", [y, x], [c], z3.And(y == 0, x == 0), isnan_raw(c.out))
    R.verify("atan2/x-zero", [y, x], [c], z3.And(D, x == 0, y != 0),
             c.out == z3.If(y > 0, val(PIDIV2), val(-PIDIV2)), note="x == 0: exactly +-fixpidiv2 by the sign of y")
    R.verify("atan2/y-zero", [y, x], [c], z3.And(D, y == 0, x != 0), c.out == z3.If(x > 0, val(0), val(PHI)),
             note="y == 0: 0 for x > 0, phi for x < 0")
    # directions steeper than 2^31 (|y/x| >= 2^31) take atan outside its own stated domain; they are decided end to end
    # below (atan2/steep).  The contract-based obligations cover |y|*2^16 < 2^47*|x|.
    Wn = 130
    steep = zx(sabs(y), Wn) << 16 >= (zx(sabs(x), Wn) << 47)
    R.verify("atan2/sign", [y, x], [c], z3.And(D, z3.Or(x != 0, y != 0), z3.Not(steep)),
             z3.And(z3.Implies(y > 0, c.out >= 0), z3.Implies(y < 0, c.out <= 0), z3.Not(isnan_raw(c.out))),
             note="never negative for y > 0, never positive for y < 0, never NaN away from the origin (|y/x| < 2^31)")
    # structure: result = atan(q) [+ phi | - phi] with q the truncated quotient y/x:  |q*x - y*2^16| < |x|
    Wd = 128
    prod = E.mulw(Wd)(z3.simplify(sx(qsel, Wd)), z3.simplify(sx(x, Wd)))
    num = sx(y, Wd) * val(65536, Wd)
    err = prod - num
    absx = sabs(sx(x, Wd))
    shape = z3.Or(z3.And(x > 0, c.out == ATANF(qsel)),
                  z3.And(x < 0, y >= 0, c.out == ATANF(qsel) + val(PHI)),
                  z3.And(x < 0, y < 0, c.out == ATANF(qsel) - val(PHI)))
    R.verify("atan2/is-atan-of-quotient", [y, x], [c], z3.And(D, x != 0, z3.Not(steep)),
             z3.And(shape, err < absx, err > -absx, qsel < val(LIM), qsel > val(-LIM)),
             also_ub=True, portfolio=("z3", "cvc5"), magnitude=True,
             note="x != 0, |y/x| < 2^31: atan2(y,x) = atan(q) (+ phi for x<0<=y, - phi for x<0, y<0) with q within one ulp of "
                  "y/x and inside atan's verified domain, no UB")
    # steep directions, end to end (INT encoding of atan2 with the series kernel replaced by its contract)
    yi, xi2 = z3.Int("y"), z3.Int("x")
    hs = R.harness("atan2k", [UNITS[2]], noinline=[KSYM])

    def kstub2(ctx, args):
        z = args[0].t
        r = ATANK(z)
        # consequences of Lemma B: 0 <= kernel(z) <= KMAX and kernel(z) <= z + 1 on [0, ZMAX]
        ctx.assume(z3.Implies(z3.And(z >= 0, z <= ZMAX), z3.And(r >= 0, r <= KMAX, r <= z + 1)))
        return E.IV(r, 64)
    cs = R.call(hs, "atan2", [yi, xi2], opts=E.Opts(int_mode=True, stubs={KSYM: kstub2}))
    absy = z3.If(yi < 0, -yi, yi)
    absx2 = z3.If(xi2 < 0, -xi2, xi2)
    Ds = z3.And(yi > -LIM, yi < LIM, xi2 > -LIM, xi2 < LIM, xi2 != 0, absy * 65536 >= absx2 * (1 << 47))
    half = mp.pi / 2 * 65536
    tol2 = mp.mpf("8e-5") * 65536
    lo2, hi2 = int(mp.ceil(half - tol2 + mp.mpf("0.01"))), int(mp.floor(half + tol2 - mp.mpf("0.01")))
    def steep_int():
        ob2 = Ob("atan2/steep", "verify", [yi, xi2], [cs], Ds,
                 z3.If(yi > 0, z3.And(cs.out >= lo2, cs.out <= hi2), z3.And(cs.out <= -lo2, cs.out >= -hi2)),
                 also_ub=True, portfolio=("z3", "cvc5"), timeout=300,
                 note="|y/x| >= 2^31 (true angle within 5e-10 of +-pi/2): atan2 within 8e-5 of it, right sign, no UB [INT]")
        ob2.tag = "int"
        return ob2
    # first route: bit-vector encoding with the quotient by specification and the products as MULW + magnitude lemmas
    ATKB = z3.Function("ATANKB", s64, s64)

    def kstub3(ctx, args):
        z = args[0]
        r = ATKB(z)
        ctx.assume(z3.Implies(z3.And(z >= 0, z <= val(ZMAX)), z3.And(r >= 0, r <= val(KMAX), r <= z + 1)))
        return r
    cb = R.call(hs, "atan2", [y, x], opts=E.Opts(stubs={KSYM: kstub3}, div_spec=True, mul_uf=True))
    Dsb = z3.And(D, x != 0, steep)
    ob1 = Ob("atan2/steep", "verify", [y, x], [cb], Dsb,
             z3.If(y > 0, z3.And(cb.out >= val(lo2), cb.out <= val(hi2)), z3.And(cb.out <= val(-lo2), cb.out >= val(-hi2))),
             also_ub=True, abstract=True, magnitude=True, portfolio=("z3", "cvc5"), timeout=600,
             note="|y/x| >= 2^31 (true angle within 5e-10 of +-pi/2): atan2 within 8e-5 of it, right sign, no UB")
    ob1.fallback = steep_int
    R._add(ob1)
    # the same obligation with the divisor fixed to a small constant (division by a constant is linear): cheap, and it is what
    # finds a counterexample quickly when the general query above is too hard to refute
    for xc in (1, -1, 2, -2, 3, -3, 7, -7):
        cc = R.call(hs, "atan2", [yi, z3.IntVal(xc)], opts=E.Opts(int_mode=True, stubs={KSYM: kstub2}))
        Dc = z3.And(yi > -LIM, yi < LIM, absy * 65536 >= abs(xc) * (1 << 47))
        R.hunt("atan2/steep/x=%d" % xc, [yi], [cc], Dc,
                 z3.If(yi > 0, z3.And(cc.out >= lo2, cc.out <= hi2), z3.And(cc.out <= -lo2, cc.out >= -hi2)),
                 also_ub=True, portfolio=("z3", "cvc5"), timeout=120,
                 note="steep directions with raw x = %d: within 8e-5 of +-pi/2, right sign, no UB" % xc)
    R.witness("atan2/steep-reach", [yi, xi2], [cs], z3.And(Ds, xi2 == -3, yi == -(1 << 40)), cs.out < 0,
              portfolio=("z3", "cvc5"))
    bud = TOL + 1 + abs(PHI - mp.pi * 65536)
    R.extra_cov["atan2_error_budget_ulp"] = {"total": mp.nstr(bud, 6), "allowed": mp.nstr(mp.mpf("8e-5") * 65536, 6)}
    R.verify("atan2/error-budget", [], [], z3.BoolVal(True), z3.BoolVal(bool(bud <= mp.mpf("8e-5") * 65536)),
             note="5e-5 + 1 ulp + |phi - pi| <= 8e-5")
    R.witness("atan2/reach-third-quadrant", [y, x], [c], z3.And(D, x < 0, y < 0), c.out < val(-PIDIV2))
