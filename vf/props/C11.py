"""C11 atan / atan2."""
import z3
import mpmath as mp
from ..core import *
from .. import build as B
from .. import encode as E
from .. import oracle as O

mp.mp.dps = 50
UNITS = [B.Unit("atan", [("a", "fx")], "i64", "return atan(a).v;"),
         B.Unit("kernel", [("a", "i64")], "i64", "return detail::atan<16>(a);"),
         B.Unit("atan2", [("y", "fx"), ("x", "fx")], "i64", "return atan2(y, x).v;"),
         B.Unit("pidiv2", [], "i64", "return fixpidiv2.v;"),
         B.Unit("phi", [], "i64", "return phi.v;")]
KSYM = "_ZN9fixedmath6detail4atanILi16EEEll"
ATAN_SYM = "_ZN9fixedmath4atanENS_7fixed_tE"
W = 96
LIM = 1 << 47
TOL = mp.mpf("5e-5") * 65536          # 3.2768 ulp
SEG1 = 28672                          # 7/16
SEG5 = 159744                         # 39/16
s64 = z3.BitVecSort(64)
SDIV, SREM = z3.Function("SDIV", s64, s64, s64), z3.Function("SREM", s64, s64, s64)
ATANK = z3.Function("ATANK", z3.IntSort(), z3.IntSort())
EPS_K = mp.mpf("1.6")                 # kernel accuracy proved piecewise (ulp)
ZMAX = 26888                          # 65536*65536/159744 rounded up: largest kernel argument of segment x >= 39/16
KMAX = 25515                          # kernel(z) <= KMAX for z <= ZMAX (proved with the kernel pieces); 77429 + 25515 = fixpidiv2


def acc_piece(R, h, unit, lo, hi, bits, tol_ulp, tag, opts_extra=None):
    enc = O.enclose(*O.ATAN, lo, hi)
    T = int(mp.floor(tol_ulp * mp.mpf(2) ** O.SC)) - 2
    x, ins, dom = O.piece_var(lo, hi, bits)

    def build(ab):
        c = R.call(h, unit, [x], opts=E.Opts(mul_ovf="bits" if ab else "exact"))
        goal = z3.And(O.within(enc, x, c.out, z3.BitVecVal(T, W), W), c.out >= 0)
        if unit == "kernel":
            # used by atan/bounded: on the arguments segment 5 can produce the kernel stays below pi/2 - atan(39/16)
            goal = z3.And(goal, z3.Implies(x <= val(ZMAX), c.out <= val(KMAX)))
        return Ob("%s/acc/[%d,%d]" % (tag, lo, hi), "verify", ins, [c], dom, goal, also_ub=True, portfolio=("z3",),
                  abstract=ab, timeout=300 if R.quick() else 900,
                  note="|%s(x) - atan x| <= %s ulp, result >= 0 and no UB on the piece" % (tag, mp.nstr(tol_ulp, 5)))
    ob = build(True)
    ob.fallback = lambda: build(False)
    R._add(ob)


def run(R):
    h = R.harness("main", UNITS)
    hk = R.harness("kstub", UNITS[:1] + UNITS[3:], noinline=[KSYM])
    a = BV("a")

    def const_of(u):
        cc = R.call(h, u, [])
        cc.encode()
        e = z3.simplify(cc.term)
        if not z3.is_bv_value(e):
            raise Unsupported("constant %s is not constant in the IR" % u)
        return B.to_signed(e.as_long(), 64)
    PIDIV2 = const_of("pidiv2")
    R.extra_cov["constants_from_ir"] = {"fixpidiv2": PIDIV2}
    R.assume_note("5e-5 = %s ulp.  Segment x >= 39/16 is decided compositionally: the series kernel detail::atan<16> is kept out "
                  "of line and replaced by an uninterpreted function; Lemma A (INT query over every x of the segment) bounds "
                  "the distance of its argument z from (x-c)/(1+xc) (resp. 1/x) and shows result = constant +- kernel(z); "
                  "Lemma B (piecewise) bounds |kernel(z) - atan z| <= %s ulp on the reachable z; glue: atan x = atan c + "
                  "atan((x-c)/(1+xc)), atan x = pi/2 - atan(1/x), atan is 1-Lipschitz (trusted mathematics)" % (
                      mp.nstr(TOL, 6), mp.nstr(EPS_K, 3)))
    # ------------------------------------------------------------------ oddness and bound, every x
    def build_odd(ab):
        o = E.Opts(mul_uf=True, div_uf=(SDIV, SREM), div_uf_all=True) if ab else E.Opts()
        c1, c2 = R.call(h, "atan", [a], opts=o), R.call(h, "atan", [-a], opts=o)
        return Ob("atan/odd", "verify", [a], [c1, c2], z3.And(a != val(INT64_MIN), a != 0), c2.out == -c1.out,
                  abstract=ab, comm_lemmas=False, note="atan(-x) == -atan(x) exactly for every x")
    ob = build_odd(True)
    ob.fallback = lambda: build_odd(False)
    R._add(ob)
    c0 = R.call(h, "atan", [val(0)])
    R.verify("atan/odd-at-zero", [], [c0], z3.BoolVal(True), c0.out == val(0))
    # ------------------------------------------------------------------ Lemma B: kernel on [0, SEG1)  (= segment 1 itself)
    kp = [(lo, hi, 10) for lo, hi in O.pieces(0, SEG1 - 1, 1024)]
    # ------------------------------------------------------------------ segments 2-4 directly
    dp = [(lo, hi, 10) for lo, hi in O.pieces(SEG1, SEG5 - 1, 1024)]
    if R.quick():
        marks = {0, SEG1 - 1, SEG1, 45055, 45056, 77823, 77824, SEG5 - 1, ZMAX, ZMAX - 1024}
        def pick(ps, n):
            must = [p for p in ps if any(p[0] <= mk <= p[1] for mk in marks)]
            rest = [p for p in ps if p not in must]
            R.rng.shuffle(rest)
            return must + rest[:n]
        kp, dp = pick(kp, 5), pick(dp, 10)
        R.bounds.append("quick tier: %d kernel pieces and %d direct pieces (segment boundaries plus a VERIF_SEED sample); "
                        "Lemma A queries are always full-range" % (len(kp), len(dp)))
    else:
        R.bounds.append("kernel: every z in [0, 28672); atan directly: every raw x in [28672, 159744); x >= 159744 up to 2^47 "
                        "compositionally (Lemma A over the whole range as INT queries); negative x by the proved oddness")
    for lo, hi, bits in kp:
        acc_piece(R, h, "kernel", lo, hi, bits, EPS_K, "kernel")
    for lo, hi, bits in dp:
        acc_piece(R, h, "atan", lo, hi, bits, TOL, "atan")
    # ------------------------------------------------------------------ segment 5 and beyond: Lemma A in INT mode
    xi = z3.Int("x")
    captured = {}

    def kstub(ctx, args):
        z = args[0].t
        captured.setdefault("z", []).append((ctx.cond, z))
        return E.IV(ATANK(z), 64)
    oi = E.Opts(int_mode=True, stubs={KSYM: kstub})
    ck = R.call(hk, "atan", [xi], opts=oi)
    ck.encode()
    zs = captured.get("z", [])
    # the kernel argument actually used on the path taken: select by path condition
    zsel = z3.IntVal(0)
    for cond, z in zs:
        zsel = z3.If(cond, z, zsel)
    # constants: atan(39/16)*65536 and pi/2*65536
    C5 = mp.atan(mp.mpf(39) / 16) * 65536
    c5lo, c5hi = int(mp.floor(C5)), int(mp.ceil(C5))
    # Lemma A (x in [SEG5, 2^47)):  out == K + ATANK(z) with K in {floor, ceil}(atan(39/16)*65536), 0 <= z < SEG1, and
    #   |z - Z*| <= 3/2 where Z* = (x - c) * 2^32 / (2^32 + x*c)      <=>   |2 z D - 2 N| <= 3 D  with N=(x-c)2^32, D=2^32+xc
    c = SEG5
    N = (xi - c) * (1 << 32)
    D = (1 << 32) + xi * c
    # Lemma B (kernel pieces): 0 <= kernel(z) <= KMAX on [0, ZMAX]
    kbound = z3.Implies(z3.And(zsel >= 0, zsel <= ZMAX), z3.And(ATANK(zsel) >= 0, ATANK(zsel) <= KMAX))
    dz = zsel * D - N
    lemmaA = z3.And(zsel >= 0, zsel <= ZMAX, dz <= D, dz >= -D,
                    z3.Or(ck.out == c5lo + ATANK(zsel), ck.out == c5hi + ATANK(zsel)))
    # after the repair large arguments use atan x = pi/2 - atan(1/x): out == fixpidiv2 - ATANK(z), |z - 2^32/x| <= 1
    lemmaR = z3.And(zsel >= 0, zsel <= ZMAX, zsel * xi <= (1 << 32), (zsel + 1) * xi > (1 << 32),
                    ck.out == PIDIV2 - ATANK(zsel))
    R.verify("atan/lemmaA/x>=39/16", [xi], [ck], z3.And(xi >= SEG5, xi < LIM, kbound), z3.Or(lemmaA, lemmaR), also_ub=True,
             portfolio=("z3", "cvc5"), timeout=300,
             note="for every raw x in [159744, 2^47): no UB, result = atan(39/16) + kernel(z) with |z - (x-c)/(1+xc)| <= 1 ulp, "
                  "or result = pi/2 - kernel(z) with |z - 1/x| <= 1 ulp; 0 <= z <= 26888")
    R.witness("atan/lemmaA/reach", [xi], [ck], z3.And(xi >= (1 << 40), xi < LIM), zsel >= 0, portfolio=("z3", "cvc5"))
    # error budget (constant inequality): |K - atan c| + eps_k + 1 <= TOL   and   |pidiv2 - pi/2| + eps_k + 1 + (1/x)^3/3 <= TOL
    budgetA = max(abs(c5lo - C5), abs(c5hi - C5)) + EPS_K + 1
    budgetR = abs(PIDIV2 - mp.pi / 2 * 65536) + EPS_K + 1 + mp.mpf("0.01")
    R.extra_cov["error_budget_ulp"] = {"segment5": mp.nstr(budgetA, 6), "reciprocal": mp.nstr(budgetR, 6), "allowed": mp.nstr(TOL, 6)}
    ok = z3.BoolVal(bool(budgetA <= TOL and budgetR <= TOL))
    R.verify("atan/error-budget", [], [], z3.BoolVal(True), ok,
             note="|K - atan c| + eps_kernel + eps_z <= 5e-5 (constant arithmetic with mpmath)")
    # ------------------------------------------------------------------ bound |atan x| <= fixpidiv2
    R.verify("atan/bounded/x>=39/16", [xi], [ck], z3.And(xi >= SEG5, xi < LIM, kbound),
             z3.And(ck.out >= 0, ck.out <= PIDIV2), portfolio=("z3", "cvc5"), timeout=300,
             note="0 <= atan(x) <= fixpidiv2 for every x in [159744, 2^47), given the kernel bound that follows from Lemma B; "
                  "below 159744 the accuracy pieces bound the result; negative x by oddness")
    vec = {"atan": [[v] for v in (0, 1, 28671, 28672, 45056, 77824, 159743, 159744, 1 << 20, 1 << 30, (1 << 40) + 5,
                                  (1 << 45) + 12345, (1 << 46) + 999, (1 << 47) - 1, -5, -(1 << 33))]}
    import math

    def kern(z):
        nat = hk.native("g++", "-O0")
        return B.to_signed(h.native("g++", "-O0").run([("kernel", [B.to_unsigned(z, 64)])])[0], 64)
    if R.selfcheck_units(hk, vec, opts=oi, uf_eval={"ATANK": kern}):
        raise Unsupported("INT encoding disagrees with the native build (see ENCODER-MISMATCH lines)")
