"""C18 shifts and bitwise and."""
import z3
from ..core import *
from .. import build as B

UNITS = [
    B.Unit("shr", [("a", "fx"), ("r", "int")], "i64", "return (a >> r).v;"),
    B.Unit("shl", [("a", "fx"), ("r", "int")], "i64", "return (a << r).v;"),
    B.Unit("band", [("a", "fx"), ("b", "fx")], "i64", "return (a & b).v;"),
]


def run(R):
    h = R.harness("main", UNITS)
    a, b, r = BV("a"), BV("b"), BV("r", 32)
    W = 130
    R.bounds.append("every finite raw x, every shift count r in [-2^31, 63], symbolic; all pairs of raw values for &")
    inr = z3.And(r >= val(0, 32), r <= val(63, 32))
    neg = r < val(0, 32)
    F = finite(a)
    A = sx(a, W)
    rw = zx(r, W)
    c = R.call(h, "shr", [a, r])
    O = sx(c.out, W)
    R.verify("shr/floor-div", [a, r], [c], z3.And(F, inr), z3.And((O << rw) <= A, A < ((O + 1) << rw)),
             note="x >> r == floor(x / 2^r): res*2^r <= x < (res+1)*2^r in 130-bit arithmetic")
    R.verify("shr/negative-count-nan", [a, r], [c], z3.And(F, neg), isnan_raw(c.out))
    R.verify_noub("shr/no-UB", [a, r], [c], z3.And(a != val(INT64_MIN), r <= val(63, 32)))
    c = R.call(h, "shl", [a, r])
    P = A << rw
    fits = z3.And(P >= val(-M, W), P <= val(M, W))
    R.verify("shl/exact-or-same-sign", [a, r], [c], z3.And(F, inr),
             z3.If(fits, sx(c.out, W) == P, z3.Not(z3.Or(z3.And(a > 0, c.out < 0), z3.And(a < 0, c.out > 0)))))
    R.verify("shl/negative-count-nan", [a, r], [c], z3.And(F, neg), isnan_raw(c.out))
    R.verify_noub("shl/no-UB", [a, r], [c], z3.And(a != val(INT64_MIN), r <= val(63, 32)))
    R.witness("shl/reach-overflow", [a, r], [c], z3.And(F, inr), z3.Not(fits))
    c = R.call(h, "band", [a, b])
    R.verify("and/bitwise", [a, b], [c], z3.BoolVal(True), c.out == (a & b))
    R.verify_noub("and/no-UB", [a, b], [c], z3.BoolVal(True))
    # the optimised code computes what the source computes (every wrapper, clang -O2)
    R.tv_guard(h, UNITS)
