"""C16 mixed-type operators equal the promoted computation."""
import z3
from ..core import *
from .. import build as B
from .. import encode as E

OPS = {"add": "+", "sub": "-", "mul": "*", "div": "/"}
TYPES = B.INTK + ["f32"]


def units():
    us = []
    for k in TYPES + ["f64"]:
        rk = "f64" if k == "f64" else "i64"
        rv = "" if k == "f64" else ".v"
        for on, op in OPS.items():
            us.append(B.Unit("r_%s_%s" % (on, k), [("a", "fx"), ("t", k)], rk, "return (a %s t)%s;" % (op, rv)))
            us.append(B.Unit("l_%s_%s" % (on, k), [("a", "fx"), ("t", k)], rk, "return (t %s a)%s;" % (op, rv)))
            if k != "f64":
                us.append(B.Unit("refr_%s_%s" % (on, k), [("a", "fx"), ("t", k)], "i64", "return (a %s fixed_t(t)).v;" % op))
                us.append(B.Unit("refl_%s_%s" % (on, k), [("a", "fx"), ("t", k)], "i64", "return (fixed_t(t) %s a).v;" % op))
                us.append(B.Unit("eq_%s_%s" % (on, k), [("a", "fx"), ("t", k)], "i64", "a %s= t; return a.v;" % op))
        if k != "f64":
            us.append(B.Unit("conv_%s" % k, [("t", k)], "i64", "return fixed_t(t).v;"))
    us.append(B.Unit("to_d", [("a", "fx")], "f64", "return static_cast<double>(a);"))
    for on, op in OPS.items():
        us.append(B.Unit("eqfx_%s" % on, [("a", "fx"), ("b", "fx")], "i64", "a %s= b; return a.v;" % op))
        us.append(B.Unit("fx_%s" % on, [("a", "fx"), ("b", "fx")], "i64", "return (a %s b).v;" % op))
    return us


def run(R):
    h = R.harness("main", units())
    a, b = BV("a"), BV("b")
    F = finite(a)
    R.bounds.append("every finite raw a x every value / bit pattern t of int8..int64, uint8..uint64, float, double; both "
                    "operand orders, four operators, four compound assignments")
    R.assume_note("relational obligations: symbolic products are MULW128 and symbolic quotients SDIV/SREM (uninterpreted) in "
                  "BOTH sides, so equality is decided without multiplier/divider reasoning; a non-unsat answer is re-decided "
                  "with real arithmetic")
    s64 = z3.BitVecSort(64)
    SDIV, SREM = z3.Function("SDIV", s64, s64, s64), z3.Function("SREM", s64, s64, s64)
    PF = ("z3", "cvc5")

    def rel(name, inputs, mk, note=""):
        def build(ab):
            o = E.Opts(mul_uf=True, div_uf=(SDIV, SREM)) if ab else E.Opts()
            calls, assume, goal = mk(o)
            return Ob(name, "verify", inputs, calls, assume, goal, note=note, portfolio=PF, abstract=ab)
        ob = build(True)
        ob.fallback = lambda: build(False)
        R._add(ob)

    for k in TYPES:
        t = BV("t", B.WIDTH[k])
        for on in OPS:
            integral_exact = k in B.INTK and on in ("mul", "div")
            for side in ("r", "l"):
                if integral_exact and not (on == "div" and side == "l"):
                    continue   # fixed*integer, integer*fixed, fixed/integer: exact integer semantics, decided by C02 / C03
                def mk(o, k=k, on=on, side=side, t=t):
                    c1 = R.call(h, "%s_%s_%s" % (side, on, k), [a, t], opts=o)
                    c2 = R.call(h, "ref%s_%s_%s" % (side, on, k), [a, t], opts=o)
                    cv = R.call(h, "conv_%s" % k, [t], opts=o)
                    return [c1, c2, cv], z3.And(F, z3.Not(isnan_raw(cv.out))), c1.out == c2.out
                rel("%s_%s_%s/equals-promoted" % (side, on, k), [a, t], mk,
                    "%s %s %s == same operator on fixed_t(t) whenever fixed_t(t) is not NaN" % (
                        ("a", OPS[on], "t") if side == "r" else ("t", OPS[on], "a")))
            def mk(o, k=k, on=on, t=t):
                c1 = R.call(h, "eq_%s_%s" % (on, k), [a, t], opts=o)
                c2 = R.call(h, "r_%s_%s" % (on, k), [a, t], opts=o)
                return [c1, c2], F, c1.out == c2.out
            rel("eq_%s_%s/compound-equals-binary" % (on, k), [a, t], mk, "a %s= t leaves a == a %s t" % (OPS[on], OPS[on]))
        if k in B.INTK:
            def mk(o, k=k, t=t):
                c1 = R.call(h, "r_mul_%s" % k, [a, t], opts=o)
                c2 = R.call(h, "l_mul_%s" % k, [a, t], opts=o)
                return [c1, c2], F, c1.out == c2.out
            rel("mul_%s/operand-order" % k, [a, t], mk, "n * a == a * n")
    for on in OPS:
        def mk(o, on=on):
            c1 = R.call(h, "eqfx_%s" % on, [a, b], opts=o)
            c2 = R.call(h, "fx_%s" % on, [a, b], opts=o)
            return [c1, c2], z3.And(F, finite(b)), c1.out == c2.out
        rel("eqfx_%s/compound-equals-binary" % on, [a, b], mk)
    # double: IEEE result of the operation on double(a) and t in the written order
    t = BV("t", 64)
    cd = R.call(h, "to_d", [a])
    cd.encode()
    S64 = z3.Float64()
    fop = {"add": z3.fpAdd, "sub": z3.fpSub, "mul": z3.fpMul, "div": z3.fpDiv}
    R.assume_note("double operands: double(a) in the oracle is the library's own conversion term (verified separately by "
                  "C05), so the query decides operator and operand order; IEEE NaN results compare equal as NaN")
    for on in OPS:
        for side in ("r", "l"):
            c = R.call(h, "%s_%s_f64" % (side, on), [a, t])
            # the library's own conversion, as an FP term over the same symbolic a (no round trip through bits)
            da = z3.substitute(cd.res.ret, *[(x, y) for x, y in zip(cd.args, [a])])
            dt = z3.fpBVToFP(t, S64)
            x, y = (da, dt) if side == "r" else (dt, da)
            exp = fop[on](z3.RNE(), x, y)
            of = z3.fpBVToFP(c.out, S64)
            R.verify("%s_%s_f64/ieee-on-double" % (side, on), [a, t], [c], F,
                     z3.If(z3.fpIsNaN(exp), z3.fpIsNaN(of), c.out == z3.fpToIEEEBV(exp)),
                     note="double operand: result == IEEE %s(double(a), t) in the written operand order (NaN compared as NaN)" % on,
                     timeout=120, portfolio=("z3",))
    c1, c2 = R.call(h, "r_sub_f64", [a, t]), R.call(h, "l_sub_f64", [a, t])
    R.witness("r_sub_f64/reach-noncommutative", [a, t], [c1, c2], F, c1.out != c2.out, portfolio=("z3",))
