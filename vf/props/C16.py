"""C16 mixed-type operators equal the promoted computation."""
import z3
from ..core import *
from .. import build as B
from .. import encode as E

OPS = {"add": "+", "sub": "-", "mul": "*", "div": "/"}
TYPES = B.INTK + ["f32"]


def units():
    us = []
    for k in TYPES + ["f64"]:
        rk = "f64" if k == "f64" else "i64"
        rv = "" if k == "f64" else ".v"
        for on, op in OPS.items():
            us.append(B.Unit("r_%s_%s" % (on, k), [("a", "fx"), ("t", k)], rk, "return (a %s t)%s;" % (op, rv)))
            us.append(B.Unit("l_%s_%s" % (on, k), [("a", "fx"), ("t", k)], rk, "return (t %s a)%s;" % (op, rv)))
            if k != "f64":
                us.append(B.Unit("refr_%s_%s" % (on, k), [("a", "fx"), ("t", k)], "i64", "return (a %s fixed_t(t)).v;" % op))
                us.append(B.Unit("refl_%s_%s" % (on, k), [("a", "fx"), ("t", k)], "i64", "return (fixed_t(t) %s a).v;" % op))
                us.append(B.Unit("eq_%s_%s" % (on, k), [("a", "fx"), ("t", k)], "i64", "a %s= t; return a.v;" % op))
        if k != "f64":
            us.append(B.Unit("conv_%s" % k, [("t", k)], "i64", "return fixed_t(t).v;"))
    us.append(B.Unit("to_d", [("a", "fx")], "f64", "return static_cast<double>(a);"))
    for on, op in OPS.items():
        us.append(B.Unit("eqfx_%s" % on, [("a", "fx"), ("b", "fx")], "i64", "a %s= b; return a.v;" % op))
        us.append(B.Unit("fx_%s" % on, [("a", "fx"), ("b", "fx")], "i64", "return (a %s b).v;" % op))
    return us


def run(R):
    h = R.harness("main", units())
    a, b = BV("a"), BV("b")
    F = finite(a)
    R.bounds.append("every finite raw a x every value / bit pattern t of int8..int64, uint8..uint64, float, double; both "
                    "operand orders, four operators, four compound assignments")
    R.assume_note("relational obligations: symbolic products are MULW128 and symbolic quotients SDIV/SREM (uninterpreted) in "
                  "BOTH sides, so equality is decided without multiplier/divider reasoning; a non-unsat answer is re-decided "
                  "with real arithmetic")
    s64 = z3.BitVecSort(64)
    SDIV, SREM = z3.Function("SDIV", s64, s64, s64), z3.Function("SREM", s64, s64, s64)
    PF = ("z3", "cvc5")

    def rel(name, inputs, mk, note=""):
        def build(ab):
            o = E.Opts(mul_uf=True, div_uf=(SDIV, SREM)) if ab else E.Opts()
            calls, assume, goal = mk(o)
            return Ob(name, "verify", inputs, calls, assume, goal, note=note, portfolio=PF, abstract=ab)
        ob = build(True)
        ob.fallback = lambda: build(False)
        R._add(ob)

    for k in TYPES:
        t = BV("t", B.WIDTH[k])
        for on in OPS:
            integral_exact = k in B.INTK and on in ("mul", "div")
            for side in ("r", "l"):
                if integral_exact and not (on == "div" and side == "l"):
                    continue   # fixed*integer, integer*fixed, fixed/integer: exact integer semantics (below)
                def mk(o, k=k, on=on, side=side, t=t):
                    c1 = R.call(h, "%s_%s_%s" % (side, on, k), [a, t], opts=o)
                    c2 = R.call(h, "ref%s_%s_%s" % (side, on, k), [a, t], opts=o)
                    cv = R.call(h, "conv_%s" % k, [t], opts=o)
                    return [c1, c2, cv], z3.And(F, z3.Not(isnan_raw(cv.out))), c1.out == c2.out
                rel("%s_%s_%s/equals-promoted" % (side, on, k), [a, t], mk,
                    "%s %s %s == same operator on fixed_t(t) whenever fixed_t(t) is not NaN" % (
                        ("a", OPS[on], "t") if side == "r" else ("t", OPS[on], "a")))
            def mk(o, k=k, on=on, t=t):
                c1 = R.call(h, "eq_%s_%s" % (on, k), [a, t], opts=o)
                c2 = R.call(h, "r_%s_%s" % (on, k), [a, t], opts=o)
                return [c1, c2], F, c1.out == c2.out
            rel("eq_%s_%s/compound-equals-binary" % (on, k), [a, t], mk, "a %s= t leaves a == a %s t" % (OPS[on], OPS[on]))
        if k in B.INTK:
            def mk(o, k=k, t=t):
                c1 = R.call(h, "r_mul_%s" % k, [a, t], opts=o)
                c2 = R.call(h, "l_mul_%s" % k, [a, t], opts=o)
                return [c1, c2], F, c1.out == c2.out
            rel("mul_%s/operand-order" % k, [a, t], mk, "n * a == a * n")
    # "fixed*integer and fixed/integer use the integer exactly": the mixed forms against the exact integer result, decided in
    # the INT encoding of the same IR (real integer arithmetic), precise bit-vector query as the fallback
    ai = z3.Int("a")
    fin_i = lambda v: z3.And(v >= -M, v <= M)
    nan_i = lambda v: z3.Or(v == NAN, v == -NAN)
    R.assume_note("integral operands of * and /: the result is compared with the exact integer product / truncated quotient of "
                  "raw(a) and the mathematical value of t (INT encoding: unbounded integers, every wrap-around of the IR an "
                  "explicit mod 2^w); NaN exactly when the product leaves [lowest, max] or t == 0")

    from . import C02 as P2
    W2 = P2.W

    def exact_mul(name, k, unit, note):
        """same three layers as C02's scalar obligations: MULW + sign lemma -> INT -> precise"""
        w = B.WIDTH[k]
        tb = BV("t", w)

        def build(ab):
            o = E.Opts(mul_uf=True) if ab else E.Opts(wide_mul=True)
            c = R.call(h, unit, [a, tb], opts=o)
            N = z3.simplify(P2.ext(tb, k, W2))
            P = P2.product(sx(a, W2), N, ab)
            inr = z3.And(P <= val(M, W2), P >= val(-M, W2))
            return Ob(name, "verify", [a, tb], [c], F, z3.If(inr, sx(c.out, W2) == P, isnan_raw(c.out)), note=note,
                      portfolio=P2.PF, extra_asserts=[P2.sign_lemma(a, N)] if ab else [], abstract=ab)

        def build_int():
            ti = z3.Int("t")
            c = R.call(h, unit, [ai, ti], opts=E.Opts(int_mode=True))
            tm = ti if k in B.SIGNED else ti % (1 << w)
            dom = z3.And(fin_i(ai), ti >= -(1 << (w - 1)), ti < (1 << (w - 1)))
            P = ai * tm
            ob = Ob(name, "verify", [ai, ti], [c], dom, z3.If(z3.And(P <= M, P >= -M), c.out == P, nan_i(c.out)),
                    note=note + " [INT encoding]", portfolio=("z3", "cvc5"), timeout=60)
            ob.tag = "int"
            ob.fallback = lambda: build(False)
            return ob
        ob = build(True)
        ob.fallback = build_int
        R._add(ob)

    Wd = 66
    for k in B.INTK:
        for unit in ("r_mul_%s", "l_mul_%s", "eq_mul_%s"):
            exact_mul((unit % k) + "/integer-used-exactly", k, unit % k, "exact product in range and NaN otherwise")
        tb = BV("t", B.WIDTH[k])
        N = sx(tb, Wd) if k in B.SIGNED else zx(tb, Wd)
        fits = z3.And(N <= val((1 << 63) - 1, Wd), N >= val(-(1 << 63), Wd))
        for unit in ("r_div_%s" % k, "eq_div_%s" % k):
            c = R.call(h, unit, [a, tb], opts=E.Opts(div_uf=(SDIV, SREM)))

            def exact(ins, outs, k=k):
                av, nv = ins["a"], ins["t"]
                if k not in B.SIGNED and nv < 0:
                    nv += 1 << B.WIDTH[k]
                q = abs(av) // abs(nv)
                return outs[0] == (q if (av < 0) == (nv < 0) else -q)
            R.verify(unit + "/integer-used-exactly", [a, tb], [c], z3.And(F, tb != 0),
                     z3.If(fits, c.out == SDIV(a, z3.Extract(63, 0, N)), c.out == val(0)), exact=exact,
                     note="fixed/integer == trunc(a/t) for every non-zero t (mathematical value; the IR's sdiv named SDIV)",
                     portfolio=P2.PF)
            R.verify(unit + "/zero-divisor-nan", [a, tb], [c], z3.And(F, tb == 0), isnan_raw(c.out), portfolio=P2.PF)
    for on in OPS:
        def mk(o, on=on):
            c1 = R.call(h, "eqfx_%s" % on, [a, b], opts=o)
            c2 = R.call(h, "fx_%s" % on, [a, b], opts=o)
            return [c1, c2], z3.And(F, finite(b)), c1.out == c2.out
        rel("eqfx_%s/compound-equals-binary" % on, [a, b], mk)
    # double: IEEE result of the operation on double(a) and t in the written order
    t = BV("t", 64)
    cd = R.call(h, "to_d", [a])
    cd.encode()
    S64 = z3.Float64()
    fop = {"add": z3.fpAdd, "sub": z3.fpSub, "mul": z3.fpMul, "div": z3.fpDiv}
    R.assume_note("double operands: double(a) in the oracle is the library's own conversion term (verified separately by "
                  "C05), so the query decides operator and operand order; IEEE NaN results compare equal as NaN")
    for on in OPS:
        for side in ("r", "l"):
            c = R.call(h, "%s_%s_f64" % (side, on), [a, t])
            # the library's own conversion, as an FP term over the same symbolic a (no round trip through bits)
            da = z3.substitute(cd.res.ret, *[(x, y) for x, y in zip(cd.args, [a])])
            dt = z3.fpBVToFP(t, S64)
            x, y = (da, dt) if side == "r" else (dt, da)
            exp = fop[on](z3.RNE(), x, y)
            of = z3.fpBVToFP(c.out, S64)
            R.verify("%s_%s_f64/ieee-on-double" % (side, on), [a, t], [c], F,
                     z3.If(z3.fpIsNaN(exp), z3.fpIsNaN(of), c.out == z3.fpToIEEEBV(exp)),
                     note="double operand: result == IEEE %s(double(a), t) in the written operand order (NaN compared as NaN)" % on,
                     timeout=120, portfolio=("z3",))
    c1, c2 = R.call(h, "r_sub_f64", [a, t]), R.call(h, "l_sub_f64", [a, t])
    R.witness("r_sub_f64/reach-noncommutative", [a, t], [c1, c2], F, c1.out != c2.out, portfolio=("z3",))
    # the optimised code computes what the source computes: every compound assignment (the forms whose only effect is a store
    # through the reference) at clang -O2
    R.tv_guard(h, [u for u in h.units.values() if u.name.startswith(("eq_", "eqfx_"))])
