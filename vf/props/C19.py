"""C19 lookup-table approximations."""
import z3
import mpmath as mp
from ..core import *
from .. import build as B
from .. import encode as E

mp.mp.dps = 50
UNITS = [
    B.Unit("sin_tab", [("i", "u16")], "i64", "return sin_angle_tab(i).v;"),
    B.Unit("cos_tab", [("i", "u16")], "i64", "return cos_angle_tab(i).v;"),
    B.Unit("tan_tab", [("i", "u8")], "i64", "return tan_tab(i).v;"),
    B.Unit("sqrt_tab", [("i", "u8")], "u16", "return square_root_tab(i);"),
    B.Unit("sin_aprox", [("d", "i32")], "i64", "return sin_angle_aprox(d).v;"),
    B.Unit("cos_aprox", [("d", "i32")], "i64", "return cos_angle_aprox(d).v;"),
    B.Unit("sqrt_aprox", [("a", "fx")], "i64", "return sqrt_aprox(a).v;"),
    B.Unit("atan_index", [("a", "fx")], "i64", "return atan_index_aprox(a).v;"),
]


def rows_fn(n, f, tol):
    out = []
    for i in range(n):
        r = f(i)
        if r is None:
            continue
        t, b = r
        out.append((i, int(mp.ceil(t - b)), int(mp.floor(t + b))))
    return out


def table(idx, w, rows, out, ow=64):
    return z3.Or([z3.And(idx == z3.BitVecVal(k, w), out >= z3.BitVecVal(lo, ow), out <= z3.BitVecVal(hi, ow))
                  for k, lo, hi in rows])


def run(R):
    h = R.harness("main", UNITS, with_cc=True)
    R.bounds.append("all 361+361+256+256 table entries (symbolic index, exhaustive); all 2^32 int32 angles; sqrt_aprox: every raw x "
                    "in [1, 2^37) by shift class; atan_index_aprox: every raw x with |x| < 2^47 (lower_bound unrolled 9 times "
                    "with unwinding assertion)")
    R.extra_cov["exhaustive"] = True
    R.assume_note("oracle tables from mpmath (50 digits), bounds rounded inwards; table contents are whatever the initialisers "
                  "in the IR of fixed_math.cc contain on this run")
    sin_rows = rows_fn(361, lambda i: (mp.sin(mp.mpf(i) * mp.pi / 180) * 65536, 2), 2)
    cos_rows = rows_fn(361, lambda i: (mp.cos(mp.mpf(i) * mp.pi / 180) * 65536, 2), 2)

    def tan_row(i):
        if i == 128:
            return None
        t = mp.tan(mp.mpf(i) * mp.pi / 256)
        return (t * 65536, 2 * (1 + t * t))
    tan_rows = rows_fn(256, tan_row, 0)
    sq_rows = rows_fn(256, lambda i: (65536 * mp.sqrt(mp.mpf(i) / 256 + mp.mpf(31) / 2 ** 18), 1), 1)
    # ------------------------------------------------------------------ table entries
    i16, i8 = BV("i", 16), BV("i", 8)
    for u, idx, w, rows, n, ow in (("sin_tab", i16, 16, sin_rows, 361, 64), ("cos_tab", i16, 16, cos_rows, 361, 64),
                                   ("tan_tab", i8, 8, tan_rows, 256, 64), ("sqrt_tab", i8, 8, sq_rows, 256, 16)):
        c = R.call(h, u, [idx])
        dom = z3.ULT(idx, z3.BitVecVal(n, w)) if n < (1 << w) else z3.BoolVal(True)
        skip = [z3.Not(idx == z3.BitVecVal(128, w))] if u == "tan_tab" else []
        out = c.out
        if ow == 16:
            goal = z3.Or([z3.And(idx == z3.BitVecVal(k, w), z3.UGE(out, z3.BitVecVal(lo, 16)), z3.ULE(out, z3.BitVecVal(hi, 16)))
                          for k, lo, hi in rows])
        else:
            goal = table(idx, w, rows, out)
        R.verify("%s/entries-faithful" % u, [idx], [c], z3.And([dom] + skip), goal, also_ub=True,
                 note="every entry within the stated bound of the function it tabulates")
    # ------------------------------------------------------------------ sin/cos_angle_aprox for every int32 angle
    d = BV("d", 32)
    for u, rows in (("sin_aprox", sin_rows), ("cos_aprox", cos_rows)):
        c = R.call(h, u, [d])
        m = z3.SRem(d, z3.BitVecVal(360, 32))
        m = z3.If(m < 0, m + 360, m)      # mathematical d mod 360
        goal = table(m, 32, rows[:360], c.out)
        for (name, dom) in (("non-negative", d >= 0), ("negative", d < 0)):
            R.verify("%s/%s-angles" % (u, name), [d], [c], dom, goal, also_ub=True,
                     note="within 2 ulp of the function of d degrees for every %s int32 d, table index in bounds" % name)
    # ------------------------------------------------------------------ sqrt_aprox
    a = BV("a")
    c = R.call(h, "sqrt_aprox", [a])
    R.verify("sqrt_aprox/zero", [a], [c], a == 0, c.out == val(0))
    R.verify("sqrt_aprox/negative-nan", [a], [c], z3.And(a < 0, a != val(INT64_MIN)), c.out == val(NAN), also_ub=True)
    W = 100
    for L in range(1, 38):
        dom = z3.And(a >= val(1 << (L - 1)), a < val(1 << L))
        r = zx(c.out, W)
        V = zx(a, W) << 16          # (sqrt(x) in raw)^2 = x * 2^16
        goal = z3.And(c.out >= 0, r * r * val(2500, W) >= V * val(2401, W), r * r * val(2500, W) <= V * val(2601, W))
        R.verify("sqrt_aprox/rel-2pct/L=%d" % L, [a], [c], dom, goal, also_ub=True, timeout=300,
                 note="0.98 <= sqrt_aprox(x)/sqrt(x) <= 1.02 as 0.98^2 x 2^16 <= r^2 <= 1.02^2 x 2^16, bit length %d" % L)
    # ------------------------------------------------------------------ atan_index_aprox
    c = R.call(h, "atan_index", [a], opts=E.Opts(unroll=10))
    LIM = 1 << 47
    scale = mp.mpf(128) / mp.pi * 65536

    def interval(target):
        """raw x with |atan(x/65536)*128/pi*65536 - target| <= 1.25*65536"""
        tol = mp.mpf(5) / 4 * 65536
        lo_ang, hi_ang = (target - tol) / scale, (target + tol) / scale
        lo = -LIM if lo_ang <= -mp.pi / 2 else int(mp.ceil(mp.tan(lo_ang) * 65536))
        hi = LIM if hi_ang >= mp.pi / 2 else int(mp.floor(mp.tan(hi_ang) * 65536))
        return lo, hi
    alts = []
    # the result is a multiple of 1/2 (index << 15); every multiple within reach of [-64, 64] +- 1.25 is an alternative
    for k in range(-132, 133):
        outv = k << 15
        lo, hi = interval(mp.mpf(outv))
        if lo > hi:
            continue
        alts.append(z3.And(c.out == val(outv), a >= val(max(lo, -LIM)), a <= val(min(hi, LIM))))
    for (name, dom) in (("non-negative", z3.And(a >= 0, a < val(LIM))), ("negative", z3.And(a < 0, a > val(-LIM)))):
        R.verify("atan_index/%s" % name, [a], [c], dom, z3.Or(alts), also_ub=True, timeout=300,
                 note="|atan_index_aprox(x) - atan(x)*128/pi| <= 1.25 for every %s raw x below 2^47 in magnitude" % name)
    R.witness("atan_index/reach", [a], [c], z3.And(a > val(1 << 20), a < val(LIM)), c.out > val(60 << 16))
