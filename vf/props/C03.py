"""C03 division."""
import z3
from ..core import *
from .. import build as B
from .. import encode as E


def units():
    us = [B.Unit("div", [("a", "fx"), ("b", "fx")], "i64", "return (a / b).v;"),
          B.Unit("diveq", [("a", "fx"), ("b", "fx")], "i64", "a /= b; return a.v;"),
          B.Unit("fdiv", [("a", "fx"), ("b", "fx")], "i64", "return fixed_division(a, b).v;")]
    for k in B.INTK:
        us.append(B.Unit("divr_" + k, [("a", "fx"), ("n", k)], "i64", "return (a / n).v;"))
        us.append(B.Unit("diveq_" + k, [("a", "fx"), ("n", k)], "i64", "a /= n; return a.v;"))
    return us


def ext(n, k, to):
    return sx(n, to) if k in B.SIGNED else zx(n, to)


def run(R):
    h = R.harness("main", units())
    a, b = BV("a"), BV("b")
    D = z3.And(finite(a), finite(b))
    R.bounds.append("fixed/fixed: all pairs of finite raw values; fixed/integer: every finite raw value x every value of each "
                    "integral type; quotients defined by specification (a = q*b + r, |r|<|b|, sign rule) in 128+ bits")
    R.assume_note("sdiv/srem with a symbolic operand are encoded by their specification with fresh q, r (unique for b != 0, "
                  "not MIN/-1), so the encoding is sound and complete; trap conditions are separate UB obligations")
    W = 128
    PF = ("z3", "cvc5", "cvc5int")
    R.assume_note("fixed/fixed first pass: the product q*b inside the quotient's specification and the oracle's r*b are the "
                  "same uninterpreted MULW128 application (plus valid bvmul lemma instances); anything not `unsat` there is "
                  "re-decided with real bvmul")

    def prod(x, y, ab):
        x, y = z3.simplify(sx(x, W)), z3.simplify(sx(y, W))
        return E.mulw(W)(x, y) if ab else x * y

    ai, bi = z3.Int("a"), z3.Int("b")
    fin_i = lambda v: z3.And(v >= -M, v <= M)
    nan_i = lambda v: z3.Or(v == NAN, v == -NAN)

    def layered(name, mk, note="", mk_int=None):
        """MULW abstraction -> INT encoding (exact, good at finding counterexamples) -> precise BV"""
        def build(ab):
            o = E.Opts(div_spec=True, mul_uf=True) if ab else E.Opts(div_spec=True, wide_mul=True)
            calls, assume, goal = mk(o, ab)
            return Ob(name, "verify", [a, b], calls, assume, goal, note=note, portfolio=PF, abstract=ab)

        def build_int():
            ins, calls, assume, goal = mk_int(E.Opts(int_mode=True))
            ob2 = Ob(name, "verify", ins, calls, assume, goal, note=note + " [INT encoding]", portfolio=("z3", "cvc5"),
                     timeout=60)
            ob2.tag = "int"
            ob2.fallback = lambda: build(False)
            return ob2
        ob = build(True)
        ob.fallback = build_int if mk_int is not None else (lambda: build(False))
        R._add(ob)

    o = E.Opts(div_spec=True, wide_mul=True)
    for u in ("div", "diveq", "fdiv"):
        c = R.call(h, u, [a, b], opts=o)
        nan = isnan_raw(c.out)
        R.verify("%s/zero-divisor-nan" % u, [a, b], [c], z3.And(D, b == 0), nan, portfolio=PF)

        def mk(o2, ab, u=u):
            c2 = R.call(h, u, [a, b], opts=o2)
            num = sx(a, W) * val(65536, W)
            err = prod(c2.out, b, ab) - num
            absb = sabs(sx(b, W))
            return [c2], z3.And(D, b != 0), z3.Or(isnan_raw(c2.out), z3.And(err <= absb, err >= -absb))

        def mi(o2, u=u):
            c2 = R.call(h, u, [ai, bi], opts=o2)
            err = c2.out * bi - ai * 65536
            absb = z3.If(bi < 0, -bi, bi)
            return [ai, bi], [c2], z3.And(fin_i(ai), fin_i(bi), bi != 0), z3.Or(nan_i(c2.out), z3.And(err <= absb, err >= -absb))
        layered("%s/within-1ulp-or-nan" % u, mk, "b != 0: NaN or |r*b - a*2^16| <= |b| (within 2^-16 of the exact quotient)",
                mk_int=mi)
        R.verify("%s/not-nan-when-a-small" % u, [a, b], [c],
                 z3.And(D, b != 0, a < val(1 << 47), a > val(-(1 << 47))), z3.Not(nan),
                 note="|a| < 2^31 => not NaN", portfolio=PF)
        R.verify_noub("%s/no-trap-no-UB" % u, [a, b], [c], D, portfolio=PF,
                      note="no division by zero, no INT64_MIN/-1, no invalid shift for finite operands")
        R.witness("%s/reach-finite" % u, [a, b], [c], D, z3.And(z3.Not(nan), c.out != 0))
        R.witness("%s/reach-nan-nonzero-divisor" % u, [a, b], [c], z3.And(D, b != 0), nan)
    W = 66
    s64 = z3.BitVecSort(64)
    SDIV, SREM = z3.Function("SDIV", s64, s64, s64), z3.Function("SREM", s64, s64, s64)
    ou = E.Opts(div_uf=(SDIV, SREM))
    R.assume_note("fixed/integer: the IR's sdiv is named by an uninterpreted function SDIV (LLVM sdiv *is* truncated "
                  "division); the oracle is SDIV(a, n) when the mathematical n fits int64 and 0 otherwise (|a| < 2^63 <= n)")
    for k in B.INTK:
        n = BV("n", B.WIDTH[k])
        N = ext(n, k, W)
        fits = z3.And(N <= val((1 << 63) - 1, W), N >= val(-(1 << 63), W))
        for u in ("divr_", "diveq_"):
            c = R.call(h, u + k, [a, n], opts=ou)
            def exact(ins, outs, k=k):
                av, nv = ins["a"], ins["n"]
                if k not in B.SIGNED and nv < 0:
                    nv += 1 << B.WIDTH[k]
                q = abs(av) // abs(nv)
                return outs[0] == (q if (av < 0) == (nv < 0) else -q)
            R.verify("%s%s/truncated-quotient" % (u, k), [a, n], [c], z3.And(finite(a), n != 0),
                     z3.If(fits, c.out == SDIV(a, z3.Extract(63, 0, N)), c.out == val(0)), exact=exact,
                     note="fixed/integer == trunc(a/n) for every non-zero n (mathematical value)", portfolio=PF)
            R.verify("%s%s/zero-nan" % (u, k), [a, n], [c], z3.And(finite(a), n == 0), isnan_raw(c.out), portfolio=PF)
            R.verify_noub("%s%s/no-trap-no-UB" % (u, k), [a, n], [c], finite(a), portfolio=PF)
    # the optimised code computes what the source computes (every wrapper, clang -O2)
    R.tv_guard(h, units())
