"""C20 degree-based helpers."""
import z3
import mpmath as mp
from ..core import *
from .. import build as B
from .. import encode as E

mp.mp.dps = 50
SIGNED_T = ["i8", "i16", "i32", "i64"]
FN = ("sin_angle", "cos_angle", "tan_angle")


def units():
    us = []
    for k in B.INTK:
        us.append(B.Unit("a2r_" + k, [("d", k)], "i64", "return angle_to_radians(d).v;"))
    for fn in FN:
        for k in SIGNED_T + ["f32"]:
            us.append(B.Unit("%s_%s" % (fn, k), [("d", k)], "i64", "return %s(d).v;" % fn))
        us.append(B.Unit("%s_fx" % fn, [("d", "i32")], "i64", "return %s(fixed_t(d)).v;" % fn))
        us.append(B.Unit("raw_%s" % fn, [("a", "fx")], "i64", "return %s(a).v;" % fn.replace("_angle", "")))
        us.append(B.Unit("%s_viafx" % fn, [("d", "f32")], "i64", "return %s(fixed_t(d)).v;" % fn))
    for k in SIGNED_T + ["f32"]:
        us.append(B.Unit("x_%s" % k, [("d", k)], "i64", "return (d * phi / 180).v;"))
    us.append(B.Unit("x_fx", [("d", "i32")], "i64", "return (fixed_t(d) * phi / 180).v;"))
    us.append(B.Unit("conv_f32", [("d", "f32")], "i64", "return fixed_t(d).v;"))
    us.append(B.Unit("conv_i32", [("d", "i32")], "i64", "return fixed_t(d).v;"))
    return us


def table(dterm, w, rows, out):
    """Or_k ( d == k and lo_k <= out <= hi_k )"""
    return z3.Or([z3.And(dterm == z3.BitVecVal(k, w), out >= val(lo), out <= val(hi)) for k, lo, hi in rows])


def trig_rows(fn):
    rows = []
    for d in range(-360, 361):
        x = mp.mpf(d) * mp.pi / 180
        if fn == "sin_angle":
            t = mp.sin(x)
            r = abs(mp.asin(mp.sin(x)))
            bound = 7 + 65536 * r ** 9 / mp.factorial(9)
        elif fn == "cos_angle":
            t = mp.cos(x)
            r = abs(mp.asin(mp.cos(x)))
            bound = 7 + 65536 * r ** 9 / mp.factorial(9)
        else:
            if d % 180 == 90 or d % 180 == -90:
                continue       # odd multiples of 90 degrees: the C10 bound makes no claim at the pole
            t = mp.tan(x)
            bound = 5 * (1 + t * t)
        tv = t * 65536
        rows.append((d, int(mp.ceil(tv - bound)), int(mp.floor(tv + bound))))
    return rows


def run(R):
    h = R.harness("main", units())
    R.bounds.append("angle_to_radians: every value of each of the 8 integral types (symbolic, full width); *_angle: every "
                    "integer d in [-360, 360] (symbolic d, oracle table from mpmath) x carrier types int8..int64, float, fixed_t")
    R.assume_note("oracle tables: sin/cos/tan of d degrees from mpmath (50 digits), bounds rounded inwards to integers; "
                  "tan_angle makes no claim at d = +-90, +-270 (the C10 bound excludes the pole)")
    a2r_rows = []
    for d in range(0, 361):
        tv = mp.mpf(d) * mp.pi / 180 * 65536
        a2r_rows.append((d, int(mp.ceil(tv - 2)), int(mp.floor(tv + 2))))
    for k in B.INTK:
        w = B.WIDTH[k]
        d = BV("d", w)
        c = R.call(h, "a2r_" + k, [d])
        if k in B.SIGNED:
            inr = z3.And(d >= z3.BitVecVal(0, w), d <= z3.BitVecVal(360, w)) if w > 8 else (d >= z3.BitVecVal(0, w))
        else:
            inr = z3.ULE(d, z3.BitVecVal(360, w)) if w > 8 else z3.BoolVal(True)
        rows = [r for r in a2r_rows if r[0] < (1 << (w - 1 if k in B.SIGNED else w))]
        R.verify("a2r_%s/in-range-within-2ulp" % k, [d], [c], inr, table(d, w, rows, c.out),
                 note="angle_to_radians(d) within 2 ulp of d*pi/180 for every d in [0, 360] representable in the type")
        R.verify("a2r_%s/outside-nan" % k, [d], [c], z3.Not(inr), isnan_raw(c.out),
                 note="NaN for every d outside [0, 360]")
        R.verify_noub("a2r_%s/no-UB" % k, [d], [c], z3.BoolVal(True))
    for fn in FN:
        rows = trig_rows(fn)
        d32 = BV("d", 32)
        cref = R.call(h, "%s_i32" % fn, [d32])
        inr32 = z3.And(d32 >= z3.BitVecVal(-360, 32), d32 <= z3.BitVecVal(360, 32))
        for lo_ in range(-360, 361, 90):
            hi_ = min(lo_ + 89, 360)
            domc = z3.And(d32 >= z3.BitVecVal(lo_, 32), d32 <= z3.BitVecVal(hi_, 32))
            rws = [r for r in rows if lo_ <= r[0] <= hi_]
            R.verify("%s_i32/accuracy/[%d,%d]" % (fn, lo_, hi_), [d32], [cref], domc,
                     z3.Or(table(d32, 32, rws, cref.out), z3.Not(z3.Or([d32 == z3.BitVecVal(k, 32) for k, _, _ in rws]))),
                     also_ub=True, timeout=300,
                     note="%s(d) within the widened C09/C10 bound of the function of d degrees, no UB" % fn)
        R.witness("%s_i32/reach" % fn, [d32], [cref], inr32, cref.out > val(1000))
        # other carriers give the same result as int32, in two steps that compose by transitivity:
        #  (A) the radian argument d*phi/180 is the same raw value for every carrier (decided once, below)
        #  (B) f_angle<T>(d) == f(as_fixed(d*phi/180)) for the carrier's own argument computation (same term DAG)
        s64 = z3.BitVecSort(64)
        SDIV, SREM = z3.Function("SDIV", s64, s64, s64), z3.Function("SREM", s64, s64, s64)
        for k, arg, dom in carriers(d32):
            def build(ab, k=k, arg=arg, dom=dom):
                o = E.Opts(mul_uf=True, div_uf=(SDIV, SREM), div_uf_all=True) if ab else E.Opts()
                ca = R.call(h, "%s_%s" % (fn, k), [arg], opts=o)
                cx = R.call(h, "x_%s" % k, [arg], opts=o)
                cr = R.call(h, "raw_%s" % fn, [cx.out], opts=o)
                return Ob("%s_%s/is-f-of-radians" % (fn, k), "verify", [d32], [ca, cx, cr], dom,
                          ca.out == cr.out, timeout=300, portfolio=("z3", "cvc5"), abstract=ab, comm_lemmas=False,
                          note="%s<%s>(d) == %s(d*phi/180) with the carrier's own argument computation" % (
                              fn, k, fn.replace("_angle", "")))
            ob = build(True)
            ob.fallback = lambda b=build: b(False)
            R._add(ob)
        # float carrier: f_angle<float>(v) is the fixed_t carrier applied to fixed_t(v), for EVERY float bit pattern
        fb = BV("f", 32)
        c1, c2 = R.call(h, "%s_f32" % fn, [fb]), R.call(h, "%s_viafx" % fn, [fb])
        R.verify("%s_f32/is-fixed-carrier-of-converted-float" % fn, [fb], [c1, c2], z3.BoolVal(True), c1.out == c2.out,
                 portfolio=("z3",), timeout=300,
                 note="%s<float>(v) == %s<fixed_t>(fixed_t(v)) for all 2^32 bit patterns (float operands are promoted)" % (fn, fn))
    xr = R.call(h, "x_i32", [d32])
    for k, arg, dom in carriers(d32):
        if k == "i32":
            continue
        cx = R.call(h, "x_%s" % k, [arg])
        R.verify("x_%s/same-radians-as-int32" % k, [d32], [cx, xr], dom, cx.out == xr.out, timeout=300,
                 portfolio=("z3",) if k == "f32" else ("z3", "cvc5"),
                 note="d*phi/180 is the same raw value whether d is carried by %s or by int32 (hence, with the "
                      "is-f-of-radians obligations, all carriers give the same *_angle result)" % k)
    # float carrying the integer d converts to the same fixed_t as the integer d itself
    fbits = z3.fpToIEEEBV(z3.fpSignedToFP(z3.RNE(), d32, z3.Float32()))
    cf, ci = R.call(h, "conv_f32", [fbits]), R.call(h, "conv_i32", [d32])
    R.verify("conv_f32/float-d-converts-like-int-d", [d32], [cf, ci],
             z3.And(d32 >= z3.BitVecVal(-360, 32), d32 <= z3.BitVecVal(360, 32)), cf.out == ci.out, portfolio=("z3",),
             note="fixed_t((float)d) == fixed_t(d) for |d| <= 360; with is-fixed-carrier-of-converted-float and the fixed_t "
                  "carrier obligations, float arguments give the same *_angle result as integer ones")
    R.verify_noub("x_i32/no-UB", [d32], [xr], z3.And(d32 >= z3.BitVecVal(-360, 32), d32 <= z3.BitVecVal(360, 32)))


def carriers(d32):
    inr = z3.And(d32 >= z3.BitVecVal(-360, 32), d32 <= z3.BitVecVal(360, 32))
    out = [("i32", d32, inr)]
    out.append(("i8", z3.Extract(7, 0, d32), z3.And(d32 >= z3.BitVecVal(-128, 32), d32 <= z3.BitVecVal(127, 32))))
    out.append(("i16", z3.Extract(15, 0, d32), inr))
    out.append(("i64", z3.SignExt(32, d32), inr))
    out.append(("fx", d32, inr))
    return out
