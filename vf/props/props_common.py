"""shared stubs"""
import z3
from ..core import *

SQRT_SYM = "_ZN9fixedmath4sqrtENS_7fixed_tE"
s64 = z3.BitVecSort(64)
SQRTF = z3.Function("SQRTF", s64, s64)


def contract_term(y, r):
    """0 <= y < 2^48:  r >= 0, r < 2^32, (r-1)^2 < y*2^16 < (r+1)^2   (66-bit arithmetic is exact for r < 2^32)"""
    Wd = 66
    V = zx(y, Wd) << 16
    Rr = zx(z3.Extract(32, 0, r), Wd)
    return z3.And(r >= 0, r < val(1 << 32), z3.Or(Rr == 0, (Rr - 1) * (Rr - 1) < V), V < (Rr + 1) * (Rr + 1))


def sqrt_stub_bv(ctx, args):
    """fixedmath::sqrt kept out of line and replaced by its contract (proved for both algorithms by C13)"""
    y = args[0]
    r = SQRTF(y)
    ctx.assume(z3.Implies(z3.And(y >= 0, y < val(1 << 48)), contract_term(y, r)))
    ctx.assume(z3.Implies(y < 0, r == val(NAN)))
    return r


SQRTI = z3.Function("SQRTI", z3.IntSort(), z3.IntSort())


def sqrt_stub_int(ctx, args):
    """INT-mode version of the same contract"""
    from .. import encode as E
    y = args[0].t
    r = SQRTI(y)
    V = y * 65536
    ctx.assume(z3.Implies(z3.And(y >= 0, y < (1 << 48)),
                          z3.And(r >= 0, r < (1 << 32), z3.Or(r == 0, (r - 1) * (r - 1) < V), V < (r + 1) * (r + 1))))
    ctx.assume(z3.Implies(y < 0, r == NAN))
    return E.IV(r, 64)


def sqrt_stub_int_floor(ctx, args):
    """the abacus algorithm's exact behaviour (C13: r = floor(sqrt(y * 2^16))), used when a counterexample has to reproduce
    on the build with FIXEDMATH_ENABLE_SQRT_ABACUS_ALGO"""
    from .. import encode as E
    y = args[0].t
    r = SQRTI(y)
    V = y * 65536
    ctx.assume(z3.Implies(z3.And(y >= 0, y < (1 << 48)), z3.And(r >= 0, r < (1 << 32), r * r <= V, V < (r + 1) * (r + 1))))
    ctx.assume(z3.Implies(y < 0, r == NAN))
    return E.IV(r, 64)
