"""C09 sin / cos accuracy, range, exact periodicity."""
import z3
import mpmath as mp
from ..core import *
from .. import build as B
from .. import encode as E
from .. import oracle as O

UNITS = [B.Unit("sin", [("a", "fx")], "i64", "return sin(a).v;"),
         B.Unit("cos", [("a", "fx")], "i64", "return cos(a).v;"),
         B.Unit("two_phi", [], "i64", "return (2 * phi).v;"),
         B.Unit("phi", [], "i64", "return phi.v;")]
TWO_PI = 411774          # floor(2*pi*65536)
W = 80
FACT8 = mp.factorial(8)
FACT9 = mp.factorial(9)


def split_at(ps, cuts):
    out = []
    for lo, hi in ps:
        cur = lo
        for c in sorted(cuts):
            if cur <= c < hi:
                out.append((cur, c))
                cur = c + 1
        out.append((cur, hi))
    return out


def tol_line(lo, hi, m, shift):
    """certified linear lower bound T0 + T1*t (units 2^-SC raw) of tau(x) = 4 + 65536*r^9/9! on the piece, where
    r = |x/65536 - shift - n*pi| for the n nearest on the whole piece (the caller splits pieces at the switch points)"""
    xm = mp.mpf(m) / 65536 - shift
    n = mp.nint(xm / mp.pi)
    for e in (lo, hi):
        assert mp.nint((mp.mpf(e) / 65536 - shift) / mp.pi) == n or abs((mp.mpf(e) / 65536 - shift) / mp.pi - n) <= mp.mpf("0.5000001")
    u = xm - n * mp.pi          # signed distance at the midpoint
    r = abs(u)
    s = mp.mpf(2) ** O.SC
    tau0 = 4 + 65536 * r ** 9 / FACT9
    slope = (1 if u >= 0 else -1) * r ** 8 / FACT8      # d tau / d t   (t in raw units)
    H = max(m - lo, hi - m)
    T0 = int(mp.floor(tau0 * s)) - (H + 4)
    T1 = int(mp.nint(slope * s))
    return T0, T1


BITS = 11


def acc_obligations(R, h, fn, fdef, shift, pieces):
    for (lo, hi) in pieces:
        enc = O.enclose(*fdef, lo, hi)
        T0, T1 = tol_line(lo, hi, enc.m, shift)
        x, ins, dom = O.piece_var(lo, hi, BITS)

        def build(ab, lo=lo, hi=hi, enc=enc, T0=T0, T1=T1, x=x, ins=ins, dom=dom):
            c = R.call(h, fn, [x], opts=E.Opts(mul_ovf="bits" if ab else "exact"))
            t = z3.SignExt(W - 64, x) - z3.BitVecVal(enc.m, W)
            tol = z3.BitVecVal(T0, W) + z3.BitVecVal(T1, W) * t
            goal = z3.And(O.within(enc, x, c.out, tol, W), c.out <= val(65536), c.out >= val(-65536))
            return Ob("%s/acc/[%d,%d]" % (fn, lo, hi), "verify", ins, [c], dom, goal, also_ub=True, portfolio=("z3",),
                      abstract=ab, timeout=120 if R.quick() else 600,
                      note="|%s(x) - true| <= 4 ulp + r^9/9!, |result| <= 1 and no UB on the piece (Taylor-2 enclosure at "
                           "the midpoint, tangent-line lower bound of the tolerance)" % fn)
        ob = build(True)
        ob.fallback = lambda b=build: b(False)
        R._add(ob)


def run(R):
    h = R.harness("main", UNITS)
    x = BV("a")
    size = 1 << BITS
    base = O.pieces(-TWO_PI, TWO_PI, size)
    halfpi = [int(mp.floor((mp.mpf(k) + mp.mpf(1) / 2) * mp.pi * 65536)) for k in range(-3, 3)]
    pis = [int(mp.floor(mp.mpf(k) * mp.pi * 65536)) for k in range(-2, 3)]
    ps_sin = split_at(base, halfpi)
    ps_cos = split_at(base, pis)
    R.assume_note("first pass per piece: signed-multiplication overflow is replaced by the multiplier-free sufficient "
                  "condition 'bit lengths of the operands add up to <= 62' (its negation is implied by real overflow, so unsat "
                  "carries over); a piece that is not unsat is re-decided with the exact overflow condition")
    R.assume_note("oracle: Taylor-2 enclosures of sin/cos from mpmath (50 digits) with Lagrange remainder sup|f'''| = 1; "
                  "tolerance lower-bounded by the tangent of the convex r^9/9! at the piece midpoint")
    if R.quick():
        # pieces containing a branch point of the implementation or of the oracle, the domain ends, plus a seeded sample
        marks = set(halfpi + pis + [0, -TWO_PI, TWO_PI, 102943, 102944, 308831, -102944, 205887, -205887])

        def pick(ps):
            must = [p for p in ps if any(p[0] <= mk <= p[1] for mk in marks)]
            rest = [p for p in ps if p not in must]
            R.rng.shuffle(rest)
            return must + rest[:max(1, len(rest) // 25)]
        import math
        tau = lambda r: 4 + 65536 * r ** 9 / 362880.0
        rs = lambda x: abs(math.asin(math.sin(x / 65536.0)))
        rc = lambda x: abs(math.asin(math.cos(x / 65536.0)))
        guided_s = R.tightest_pieces(h, "sin", ps_sin, lambda x: 65536 * math.sin(x / 65536.0), lambda x: tau(rs(x)), k=10)
        guided_c = R.tightest_pieces(h, "cos", ps_cos, lambda x: 65536 * math.cos(x / 65536.0), lambda x: tau(rc(x)), k=10)
        ps_sin, ps_cos = pick(ps_sin), pick(ps_cos)
        ps_sin += [p for p in guided_s if p not in ps_sin]
        ps_cos += [p for p in guided_c if p not in ps_cos]
        R.bounds.append("quick tier: %d sin pieces and %d cos pieces of <= %d raw values (all pieces containing a branch "
                        "point, a VERIF_SEED-seeded 4%% sample of the rest, and the 10 pieces in which a coarse native grid comes closest to the bound); the thorough tier covers every raw x in "
                        "[-2pi, 2pi]" % (len(ps_sin), len(ps_cos), size))
    else:
        R.bounds.append("every raw x in [-411774, 411774] (823,549 values) for sin and for cos, in %d + %d pieces" % (
            len(ps_sin), len(ps_cos)))
    R.extra_cov["pieces"] = {"sin": ps_sin if R.quick() else len(ps_sin), "cos": ps_cos if R.quick() else len(ps_cos)}
    acc_obligations(R, h, "sin", O.SIN, mp.mpf(0), ps_sin)
    acc_obligations(R, h, "cos", O.COS, mp.pi / 2, ps_cos)
    xw, ins, dom = O.piece_var(90 * 1024, 90 * 1024 + 1023, 10)
    cs = R.call(h, "sin", [xw])
    R.witness("sin/reach-large", ins, [cs], dom, cs.out > val(64000), portfolio=("z3",))


    # ------------------------------------------------------------------ exact periodicity (INT encoding, symbolic k)
    def const_of(u):
        cc = R.call(h, u, [])
        cc.encode()
        e = z3.simplify(cc.term)
        if not z3.is_bv_value(e):
            raise Unsupported("constant %s is not constant in the IR" % u)
        return B.to_signed(e.as_long(), 64)
    P2 = const_of("two_phi")
    R.extra_cov["two_phi_constant_from_ir"] = P2
    xi, ki = z3.Int("x"), z3.Int("k")
    LIM = 1 << 62
    oi = E.Opts(int_mode=True, mul_uf=True)
    R.assume_note("periodicity: INT encoding of two runs of the whole function; symbolic*symbolic products are the "
                  "uninterpreted MULI in both runs (equal reduced arguments => equal results), 2*phi = %d read from the IR; "
                  "range |x|, |x + k*2phi| < 2^62 (the property's quantifier; its statement says 2^46)" % P2)
    vec = {}
    for fn in ("sin", "cos"):
        c1 = R.call(h, fn, [xi], opts=oi)
        c2 = R.call(h, fn, [xi + ki * P2], opts=oi)
        dom = z3.And(xi > -LIM, xi < LIM, xi + ki * P2 > -LIM, xi + ki * P2 < LIM)
        obp = R.verify("%s/periodic" % fn, [xi, ki], [c1, c2], dom, c1.out == c2.out, portfolio=("z3", "cvc5"),
                       note="%s(x + k*2phi) == %s(x) exactly for every x, k in range" % (fn, fn))

        def refine(fn=fn, c1=c1, c2=c2, dom=dom):
            # the abstract query gave models that the real code does not confirm (the products are uninterpreted there): look
            # for a real counterexample with the real multipliers, one period apart, on pieces of [-2phi, 0) (so that x and
            # x + 2phi lie on opposite sides of zero) -- and keep the abstract obligation open: pieces that hold do not prove it
            ps = O.pieces(-P2, -1, 2048)
            R.rng.shuffle(ps)
            out = []
            for (l, hh) in ps[:6 if R.quick() else 48]:
                x, ins, d = O.piece_var(l, hh, 11)
                a1, a2 = R.call(h, fn, [x]), R.call(h, fn, [x + val(P2)])
                out.append(Ob("%s/periodic/k=1/[%d,%d]" % (fn, l, hh), "hunt", ins, [a1, a2], d, a1.out == a2.out, portfolio=("z3",),
                              timeout=300, note="%s(x + 2phi) == %s(x) with the real multipliers on one piece" % (fn, fn)))
            again = Ob("%s/periodic#open" % fn, "verify", [xi, ki], [c1, c2], dom, c1.out == c2.out, portfolio=("z3", "cvc5"),
                       note="the abstract periodicity query is not discharged (its models do not reproduce); pieces with the real "
                            "multipliers were searched for a concrete counterexample")
            return out + [again]
        if obp is not None:
            obp.fallback = refine
        R.witness("%s/periodic-reach" % fn, [xi, ki], [c1, c2], z3.And(dom, ki > 1000, xi < -5000000), c1.out != 0,
                  portfolio=("z3", "cvc5"))
        vec[fn] = [[v] for v in (0, 1, -1, 102943, 102944, 102945, -102944, 308831, 308832, 411774, -411775, 5000000,
                                 -5000000, 123456789012, -987654321098, (1 << 46) - 1, -(1 << 46) + 1, 205887, 65536)]
        vec[fn] += [[R.rng.randrange(-(1 << 40), 1 << 40)] for _ in range(30)]
    # validate the INT encoder on this function against the real build (UB-free inputs only)
    if R.selfcheck_units(h, vec, opts=E.Opts(int_mode=True)):
        raise Unsupported("INT encoding disagrees with the native build (see ENCODER-MISMATCH lines)")
