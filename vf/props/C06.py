"""C06 ordering, NaN sentinel, negation, abs."""
import z3
from ..core import *
from .. import build as B

CMP = {"eq": "==", "ne": "!=", "lt": "<", "le": "<=", "gt": ">", "ge": ">="}
UNITS = [B.Unit(n, [("a", "fx"), ("b", "fx")], "bool", "return a %s b;" % op) for n, op in CMP.items()] + [
    B.Unit("isnan", [("a", "fx")], "bool", "return isnan(a);"),
    B.Unit("neg", [("a", "fx")], "i64", "return (-a).v;"),
    B.Unit("abs", [("a", "fx")], "i64", "return abs(a).v;"),
    B.Unit("negneg", [("a", "fx")], "i64", "return (-(-a)).v;"),
    B.Unit("absneg", [("a", "fx")], "i64", "return abs(-a).v;"),
    B.Unit("lim_max", [], "i64", "return std::numeric_limits<fixed_t>::max().v;"),
    B.Unit("lim_lowest", [], "i64", "return std::numeric_limits<fixed_t>::lowest().v;"),
    B.Unit("lim_nan", [], "i64", "return std::numeric_limits<fixed_t>::quiet_NaN().v;"),
    B.Unit("nan_result", [], "i64", "return quiet_NaN_result().v;"),
]


def run(R):
    h = R.harness("main", UNITS)
    a, b = BV("a"), BV("b")
    T = z3.BoolVal(True)
    R.bounds.append("comparisons: all 2^128 pairs of raw values; isnan/neg/abs: every raw value except INT64_MIN "
                    "(finite values and both NaN sentinels)")
    ref = {"eq": a == b, "ne": a != b, "lt": a < b, "le": a <= b, "gt": a > b, "ge": a >= b}
    for n in CMP:
        c = R.call(h, n, [a, b])
        R.verify("%s/order" % n, [a, b], [c], T, (c.out == val(1, 1)) == ref[n],
                 note="operator %s orders raw representations as signed integers (value order; NaN = INT64_MAX top, "
                      "-NaN bottom of the finite range)" % CMP[n])
        R.verify_noub("%s/no-UB" % n, [a, b], [c], T)
        R.witness("%s/reach-true" % n, [a, b], [c], T, c.out == val(1, 1))
        R.witness("%s/reach-false" % n, [a, b], [c], T, c.out == val(0, 1))
    D = a != val(INT64_MIN)
    c = R.call(h, "isnan", [a])
    R.verify("isnan/exactly-sentinels", [a], [c], D, (c.out == val(1, 1)) == isnan_raw(a))
    R.verify_noub("isnan/no-UB", [a], [c], D)
    R.witness("isnan/reach-true", [a], [c], D, c.out == val(1, 1))
    F = finite(a)
    c = R.call(h, "neg", [a])
    R.verify("neg/exact-finite", [a], [c], F, z3.And(sx(c.out, 65) == -sx(a, 65), finite(c.out)))
    R.verify_noub("neg/no-UB", [a], [c], D)
    c = R.call(h, "negneg", [a])
    R.verify("negneg/identity", [a], [c], F, c.out == a)
    c = R.call(h, "abs", [a])
    R.verify("abs/exact-finite", [a], [c], F, z3.And(sx(c.out, 65) == sabs(sx(a, 65)), c.out >= 0, finite(c.out)))
    R.verify_noub("abs/no-UB", [a], [c], D)
    R.verify("abs/nan-stays-nan", [a], [c], isnan_raw(a), c.out == val(NAN))
    c2 = R.call(h, "absneg", [a])
    R.verify("absneg/equals-abs", [a], [c, c2], F, c.out == c2.out)
    for n, v in (("lim_max", M), ("lim_lowest", -M), ("lim_nan", NAN), ("nan_result", NAN)):
        c = R.call(h, n, [])
        R.verify("%s/value" % n, [], [c], T, c.out == val(v), note="numeric_limits constant == %d" % v)
    # the optimised code computes what the source computes (every wrapper, clang -O2)
    R.tv_guard(h, UNITS, dom=lambda u, ins: z3.BoolVal(True))
