"""C07 no undefined behaviour, traps or out-of-bounds reads in any public entry point."""
import z3
from ..core import *
from .. import build as B
from .. import encode as E

OPS = {"add": "+", "sub": "-", "mul": "*", "div": "/"}
KSYM = "_ZN9fixedmath6detail4atanILi16EEEll"
ATAN_SYM = "_ZN9fixedmath4atanENS_7fixed_tE"
SQRT_SYM = "_ZN9fixedmath4sqrtENS_7fixed_tE"
TRIG = ("sin", "cos", "tan")
ANGLE_T = ("i8", "i16", "i32", "i64", "u8", "u16", "u32", "u64", "f32")


def units():
    us = []
    U = lambda n, p, r, b: us.append(B.Unit(n, p, r, b))
    fx1, fx2 = [("a", "fx")], [("a", "fx"), ("b", "fx")]
    for n, e in (("neg", "(-a).v"), ("abs", "abs(a).v"), ("ceil", "ceil(a).v"), ("floor", "floor(a).v"),
                 ("sqrt", "sqrt(a).v"), ("sqrt_abacus", "detail::sqrt_abacus(a).v"), ("sin", "sin(a).v"), ("cos", "cos(a).v"),
                 ("tan", "tan(a).v"), ("asin", "asin(a).v"), ("acos", "acos(a).v"), ("atan", "atan(a).v")):
        U(n, fx1, "i64", "return %s;" % e)
    U("isnan", fx1, "bool", "return isnan(a);")
    for n, op in OPS.items():
        U("fx_" + n, fx2, "i64", "return (a %s b).v;" % op)
        U("fxeq_" + n, fx2, "i64", "a %s= b; return a.v;" % op)
    for n, op in (("eq", "=="), ("ne", "!="), ("lt", "<"), ("le", "<="), ("gt", ">"), ("ge", ">=")):
        U("cmp_" + n, fx2, "bool", "return a %s b;" % op)
    U("band", fx2, "i64", "return (a & b).v;")
    U("hypot", fx2, "i64", "return hypot(a, b).v;")
    U("atan2", fx2, "i64", "return atan2(a, b).v;")
    U("shr", [("a", "fx"), ("r", "int")], "i64", "return (a >> r).v;")
    U("shl", [("a", "fx"), ("r", "int")], "i64", "return (a << r).v;")
    for k in B.INTK + ["f32", "f64"]:
        t = B.CT[k]
        rk, rv = ("f64", "") if k == "f64" else ("i64", ".v")
        for n, op in OPS.items():
            U("r_%s_%s" % (n, k), [("a", "fx"), ("t", k)], rk, "return (a %s t)%s;" % (op, rv))
            U("l_%s_%s" % (n, k), [("a", "fx"), ("t", k)], rk, "return (t %s a)%s;" % (op, rv))
            if k != "f64":
                U("eq_%s_%s" % (n, k), [("a", "fx"), ("t", k)], "i64", "a %s= t; return a.v;" % op)
        U("to_fixed_" + k, [("t", k)], "i64", "return fixed_t(t).v;")
        U("from_fixed_" + k, fx1, k, "return static_cast<%s>(a);" % t)
    for k in B.INTK:
        U("a2r_" + k, [("t", k)], "i64", "return angle_to_radians(t).v;")
    for k in ANGLE_T:
        U("angle_arg_" + k, [("t", k)], "i64", "return (t * phi / 180).v;")
    U("angle_arg_fx", fx1, "i64", "return (a * phi / 180).v;")
    U("lit_ull", [("t", "u64")], "i64", "return operator\"\"_fix(static_cast<unsigned long long>(t)).v;")
    U("lit_ld", [("t", "f64")], "i64", "return operator\"\"_fix(static_cast<long double>(t)).v;")
    return us


def cc_units():
    fx1 = [("a", "fx")]
    return [B.Unit("sin_angle_aprox", [("t", "i32")], "i64", "return sin_angle_aprox(t).v;"),
            B.Unit("cos_angle_aprox", [("t", "i32")], "i64", "return cos_angle_aprox(t).v;"),
            B.Unit("sqrt_aprox", fx1, "i64", "return sqrt_aprox(a).v;"),
            B.Unit("hypot_aprox", [("a", "fx"), ("b", "fx")], "i64", "return hypot_aprox(a, b).v;"),
            B.Unit("atan_index_aprox", fx1, "i64", "return atan_index_aprox(a).v;"),
            B.Unit("atan_aprox", fx1, "i64", "return atan_aprox(a).v;"),
            B.Unit("tan_tab", [("t", "u8")], "i64", "return tan_tab(t).v;"),
            B.Unit("square_root_tab", [("t", "u8")], "u16", "return square_root_tab(t);")]


UNROLL = {"sqrt_abacus": 34, "atan_index_aprox": 10, "atan_aprox": 10}
COMPOSED = {"sin", "cos", "tan", "asin", "acos", "atan", "atan2"}


def run(R):
    R.bounds.append("every public function / operator x operand type (one wrapper each); fixed_t parameters: every raw value "
                    "except INT64_MIN (all finite values and both NaN sentinels); integral parameters: every value; float / "
                    "double: every bit pattern; shift counts in [INT_MIN, 63]; loops unrolled with unwinding assertion "
                    "(sqrt_abacus 34, std::lower_bound 10)")
    R.outside.append("UB sites are those of the LLVM IR that clang emits for the C++ abstract machine: signed overflow (nsw), "
                     "shift count >= width, division by zero and INT64_MIN/-1, float-to-integer casts out of range, ctlz(0), "
                     "loads outside a table initialiser, reaching unreachable/trap.  Left shift of a NEGATIVE signed value "
                     "(undefined before C++20, defined since, and defined by GCC and Clang in every mode) is not a site.")
    R.outside.append("GCC's generated code is covered only through this source-level argument (no GIMPLE/RTL executor); the "
                     "replay of every model runs a clang -fsanitize=undefined,bounds build with _GLIBCXX_ASSERTIONS")
    R.outside.append("series functions are decided compositionally: (a) here, for EVERY argument, the range reduction / "
                     "argument preparation has no UB and hands the series a value of the bounded interval; (b) the series part "
                     "itself is UB-free on that interval by the piecewise obligations of C09 (sin, cos on [-2pi, 2pi]), C10 (tan "
                     "on [-pi, pi]), C11 (atan kernel and segments), C12 (asin on [0, 1]), whose quick tiers sample the pieces "
                     "and whose thorough tiers cover all of them; sin_angle / cos_angle / tan_angle = argument computation "
                     "(checked here for every value) followed by sin / cos / tan")
    groups = [("h", units(), False, "c++17"), ("cc", cc_units(), True, "c++17")]
    sel_all = []
    hs = {}
    for tag, us, with_cc, std in groups:
        h = R.harness(tag, us, with_cc=with_cc, std=std)
        hs[tag] = h
        for u in us:
            sel_all.append((h, u))
    for h, u in sel_all:
        if u.name in COMPOSED:
            continue
        ins, dom = [], []
        for n, k in u.params:
            v = BV(n, B.WIDTH[k])
            ins.append(v)
            if k == "fx":
                dom.append(v != val(INT64_MIN))
            if n == "r" and k == "int":
                dom.append(v <= z3.BitVecVal(63, 32))
        D = z3.And(dom) if dom else z3.BoolVal(True)

        def build(ab, h=h, u=u, ins=ins, D=D):
            o = E.Opts(unroll=UNROLL.get(u.name, 1), mul_ovf="bits" if ab else "exact")
            c = R.call(h, u.name, ins, opts=o)
            return Ob("%s/no-UB" % u.name, "verify", ins, [c], D, None, ub=True, abstract=ab,
                      portfolio=("z3", "cvc5"), timeout=120 if R.quick() else 900,
                      note="no UB site of %s is reachable for any argument value" % u.name)
        ob = build(True)
        ob.fallback = lambda b=build: b(False)
        R._add(ob)
    h = hs["h"]
    xi = z3.Int("x")
    DI = z3.And(xi > -(1 << 63), xi < (1 << 63))
    # ------------------------------------------------------------------ sin / cos / tan: range reduction for every argument
    nomul = lambda k, t, cnd: not E.mentions(cnd, {"MULI"})
    for fn in TRIG:
        c = R.call(h, fn, [xi], opts=E.Opts(int_mode=True, mul_uf=True))
        R._add(Ob("%s/reduction-no-UB" % fn, "verify", [xi], [c], DI, None, ub=True, ub_filter=nomul, portfolio=("z3", "cvc5"),
                  note="INT encoding, every raw argument except INT64_MIN: no UB site outside the series polynomial (sites whose "
                       "condition depends on a symbolic product are the polynomial's and are covered piecewise by C09/C10)"))
    # the UB sites that depend on the series' products are covered by C09/C10 on the base interval only; they carry over to every
    # argument because their reachability is invariant under the period and under the sign fold (same INT encoding, products
    # uninterpreted: equal reduced arguments give identical product terms)
    PHI_ = 205887
    ki = z3.Int("k")
    LIMP = 1 << 62
    for fn, per in (("sin", 2 * PHI_), ("cos", 2 * PHI_), ("tan", PHI_)):
        o = E.Opts(int_mode=True, mul_uf=True)
        c1 = R.call(h, fn, [xi], opts=o)
        c2 = R.call(h, fn, [xi + ki * per], opts=o)
        c1.encode()
        for side, sd in (("x>=0", z3.And(xi >= 0, xi <= per, ki >= 0)), ("x<=0", z3.And(xi <= 0, xi >= -per, ki <= 0))):
            R._add(Ob("%s/UB-sites-periodic/%s" % (fn, side), "verify", [xi, ki], [c1, c2],
                      z3.And(sd, xi + ki * per > -LIMP, xi + ki * per < LIMP, z3.Not(c1.res.ub_any())), None, ub=True,
                      portfolio=("z3", "cvc5"), timeout=300,
                      note="no UB site of %s(x) reachable on the base interval => none reachable at x + k*period, k of the sign of "
                           "x (|argument| < 2^62): the piecewise UB-freedom of C09/C10 extends to every argument" % fn))
    c1 = R.call(h, "tan", [xi], opts=E.Opts(int_mode=True, mul_uf=True))
    c2 = R.call(h, "tan", [-xi], opts=E.Opts(int_mode=True, mul_uf=True, facts=(xi > 0,)))
    c1.encode()
    R._add(Ob("tan/UB-sites-odd", "verify", [xi], [c1, c2], z3.And(xi > 0, xi < LIMP, z3.Not(c1.res.ub_any())), None, ub=True,
              portfolio=("z3", "cvc5"), timeout=300,
              note="no UB site of tan(x) reachable => none reachable at -x, 0 < x < 2^62 (C10's pieces cover [0, pi]; the sign "
                   "branch of the second run is pruned with the fact x > 0, after which both runs evaluate the same terms)"))
    # the reduced argument really is bounded: the first product of the series is x*x with |x| <= phi/2 (sin, cos), <= phi/4<<4 ..
    # (this is what makes the piecewise domain of C09/C10 sufficient; exact periodicity is proved there)
    # ------------------------------------------------------------------ asin / acos
    a = BV("a")
    hq = R.harness("sq", [u for u in units() if u.name in ("asin", "acos")], noinline=[SQRT_SYM])
    from .props_common import sqrt_stub_bv
    for fn in ("asin", "acos"):
        c = R.call(hq, fn, [a], opts=E.Opts(stubs={SQRT_SYM: sqrt_stub_bv}))
        R.verify_noub("%s/outside-domain-no-UB" % fn, [a], [c],
                      z3.And(a != val(INT64_MIN), z3.Or(a > val(65536), a < val(-65536))),
                      note="|x| > 1 (including NaN): early NaN return, no UB")

        def build_sym(ab, fn=fn):
            o = E.Opts(stubs={SQRT_SYM: sqrt_stub_bv}, mul_uf=ab)
            c1, c2 = R.call(hq, fn, [a], opts=o), R.call(hq, fn, [-a], opts=o)
            c1.encode()
            c2.encode()
            u1, u2 = c1.res.ub_any(), c2.res.ub_any()
            return Ob("%s/UB-symmetric" % fn, "verify", [a], [c1, c2], z3.And(a >= 0, a <= val(65536)), u1 == u2,
                      abstract=ab, comm_lemmas=False,
                      note="the UB sites of %s(-x) are reachable exactly when those of %s(x) are: with C12's piecewise "
                           "UB-freedom on [0, 1] this covers [-1, 0)" % (fn, fn)) if fn == "asin" else None
        if fn == "asin":
            ob = build_sym(True)
            ob.fallback = lambda: build_sym(False)
            R._add(ob)
    # ------------------------------------------------------------------ atan: every x >= 39/16 up to the NaN sentinel (INT, kernel stubbed)
    hk = R.harness("kstub", [u for u in units() if u.name == "atan"], noinline=[KSYM])
    ATANK = z3.Function("ATANK", z3.IntSort(), z3.IntSort())

    def kstub(ctx, args):
        z = args[0].t
        r = ATANK(z)
        # contract from C11's kernel pieces: 0 <= kernel(z) <= 27030 on [0, 28672)
        ctx.assume(z3.Implies(z3.And(z >= 0, z < 28672), z3.And(r >= 0, r <= 27030)))
        ctx.res.__dict__.setdefault("kargs", []).append((ctx.cond, z))
        return E.IV(r, 64)
    c = R.call(hk, "atan", [xi], opts=E.Opts(int_mode=True, stubs={KSYM: kstub}))
    c.encode()
    inr = z3.And([z3.Implies(cond, z3.And(z >= 0, z < 28672)) for cond, z in c.res.kargs])
    R._add(Ob("atan/no-UB-and-kernel-argument-in-range", "verify", [xi], [c], DI, inr, also_ub=True, portfolio=("z3", "cvc5"),
              timeout=300, note="every raw argument except INT64_MIN (INT encoding, series kernel replaced by its contract): no UB "
                                "and the kernel is only called with 0 <= z < 7/16, where C11 proves it UB-free"))
    # ------------------------------------------------------------------ atan2: every pair (BV, atan replaced by its contract)
    h2 = R.harness("atan2", [u for u in units() if u.name == "atan2"], noinline=[ATAN_SYM])
    ATANF = z3.Function("ATANF", z3.BitVecSort(64), z3.BitVecSort(64))
    PIDIV2 = 102944

    def astub(ctx, args):
        q = args[0]
        r = ATANF(q)
        ctx.assume(z3.And(r <= val(PIDIV2), r >= val(-PIDIV2)))
        ctx.res.__dict__.setdefault("aargs", []).append((ctx.cond, q))
        return r
    y, x = BV("a"), BV("b")
    c = R.call(h2, "atan2", [y, x], opts=E.Opts(stubs={ATAN_SYM: astub}, div_spec=True, mul_uf=True))
    c.encode()
    notmin = z3.And([z3.Implies(cond, q != val(INT64_MIN)) for cond, q in c.res.aargs])
    R._add(Ob("atan2/no-UB-and-atan-argument-valid", "verify", [y, x], [c], z3.And(y != val(INT64_MIN), x != val(INT64_MIN)),
              notmin, also_ub=True, portfolio=("z3", "cvc5"), timeout=300,
              note="every pair of arguments except INT64_MIN: no UB in the division and additions, atan is never called with "
                   "INT64_MIN (atan replaced by its contract |atan q| <= fixpidiv2)"))

    # ------------------------------------------------------------------ teeth: outside the stated domain the sites are reachable
    for uname, mk in (("neg", lambda v: v[0] == val(INT64_MIN)), ("abs", lambda v: v[0] == val(INT64_MIN)),
                      ("shr", lambda v: v[1] == z3.BitVecVal(64, 32)), ("shl", lambda v: v[1] == z3.BitVecVal(64, 32))):
        u = h.units[uname]
        ins = [BV(n, B.WIDTH[k]) for n, k in u.params]
        c = R.call(h, uname, ins)
        c.encode()
        R._add(Ob("%s/site-reachable-outside-domain" % uname, "witness", ins, [c], mk(ins), c.res.ub_any(),
                  note="vacuity guard: just outside the quantified domain the same query finds the UB site"))
