"""C10 tan: accuracy relative to slope, odd, periodic, NaN only at the pole."""
import z3
import mpmath as mp
from ..core import *
from .. import build as B
from .. import encode as E
from .. import oracle as O

UNITS = [B.Unit("tan", [("a", "fx")], "i64", "return tan(a).v;"),
         B.Unit("phi", [], "i64", "return phi.v;"),
         B.Unit("pidiv2", [], "i64", "return fixpidiv2.v;")]
PI_RAW = 205887      # floor(pi*65536)
W = 96


def tol_lo(lo, hi):
    """certified lower bound (units 2^-SC raw) of 2.5*(1+tan^2 x) on the piece: 1+tan^2 is even and increasing in the
    distance to the nearest multiple of pi, so its minimum on a pole-free interval is at the end nearest to one (or at the
    multiple itself if the interval contains it)"""
    a, b = mp.mpf(lo) / 65536, mp.mpf(hi) / 65536
    n = mp.nint(((a + b) / 2) / mp.pi)
    c = n * mp.pi
    if a <= c <= b:
        d = mp.mpf(0)
    else:
        d = min(abs(a - c), abs(b - c))
    v = mp.mpf(5) / 2 * (1 + mp.tan(d) ** 2)
    return int(mp.floor(v * mp.mpf(2) ** O.SC)) - 2


def piece_list(lo, hi, pole):
    """pieces: 256 raw values, 64 within 2048 of the pole, 8 within 256, single points within 32"""
    out = []
    x = lo
    while x <= hi:
        d = min(abs(x - pole), abs(x - pole - 1))
        if d <= 32:
            bits = 0
        elif d <= 256:
            bits = 3
        elif d <= 2048:
            bits = 6
        else:
            bits = 8
        size = 1 << bits
        nxt = min((x // size + 1) * size - 1, hi) if bits else x
        out.append((x, nxt, max(bits, 1)))
        x = nxt + 1
    return out


def run(R):
    h = R.harness("main", UNITS)

    def const_of(u):
        cc = R.call(h, u, [])
        cc.encode()
        e = z3.simplify(cc.term)
        if not z3.is_bv_value(e):
            raise Unsupported("constant %s is not constant in the IR" % u)
        return B.to_signed(e.as_long(), 64)
    PHI, PHI2 = const_of("phi"), const_of("pidiv2")
    R.extra_cov["constants_from_ir"] = {"phi": PHI, "fixpidiv2": PHI2}
    a = BV("a")
    # ---------------------------------------------------------------- oddness, all x (both NaN accepted for NaN results)
    s64 = z3.BitVecSort(64)
    SDIV, SREM = z3.Function("SDIV", s64, s64, s64), z3.Function("SREM", s64, s64, s64)

    def build_odd(ab):
        o = E.Opts(mul_uf=True, div_uf=(SDIV, SREM), div_uf_all=True) if ab else E.Opts()
        c1 = R.call(h, "tan", [a], opts=o)
        c2 = R.call(h, "tan", [-a], opts=o)
        return Ob("tan/odd", "verify", [a], [c1, c2], z3.And(a != val(INT64_MIN), a != 0),
                  z3.Or(c2.out == -c1.out, z3.And(isnan_raw(c1.out), isnan_raw(c2.out))), abstract=ab, comm_lemmas=False,
                  note="tan(-x) == -tan(x) for every x (two NaN results count as equal)")
    ob = build_odd(True)
    ob.fallback = lambda: build_odd(False)
    R._add(ob)
    c0 = R.call(h, "tan", [val(0)])
    R.verify("tan/odd-at-zero", [], [c0], z3.BoolVal(True), c0.out == val(0), note="tan(0) == 0 (the x == -x case of oddness)")
    R.assume_note("oddness: products / symbolic quotients are uninterpreted in both runs; periodicity and pole: INT encoding "
                  "with uninterpreted products, phi=%d fixpidiv2=%d read from the IR" % (PHI, PHI2))
    # ---------------------------------------------------------------- period and pole (INT)
    xi, ki = z3.Int("x"), z3.Int("k")
    LIM = 1 << 62
    oi = E.Opts(int_mode=True, mul_uf=True)
    c1 = R.call(h, "tan", [xi], opts=oi)
    c2 = R.call(h, "tan", [xi + ki * PHI], opts=oi)
    dom = z3.And(xi >= 0, ki >= 0, xi + ki * PHI < LIM)
    obp = R.verify("tan/periodic", [xi, ki], [c1, c2], dom, c1.out == c2.out, portfolio=("z3", "cvc5"),
                   note="tan(x + k*phi) == tan(x) exactly for x >= 0, k >= 0, arguments below 2^62")

    def refine():
        # models of the abstract query that the real code does not confirm: search pieces of [0, phi) one period apart with
        # the real multipliers for a concrete counterexample, and keep the abstract obligation open
        ps = O.pieces(0, PHI - 1, 1024)
        R.rng.shuffle(ps)
        out = []
        for (l, hh) in ps[:6 if R.quick() else 48]:
            x, ins, d = O.piece_var(l, hh, 10)
            a1, a2 = R.call(h, "tan", [x]), R.call(h, "tan", [x + val(PHI)])
            out.append(Ob("tan/periodic/k=1/[%d,%d]" % (l, hh), "hunt", ins, [a1, a2], d, a1.out == a2.out, portfolio=("z3",),
                          timeout=300, note="tan(x + phi) == tan(x) with the real multipliers on one piece"))
        again = Ob("tan/periodic#open", "verify", [xi, ki], [c1, c2], dom, c1.out == c2.out, portfolio=("z3", "cvc5"),
                   note="the abstract periodicity query is not discharged (its models do not reproduce); pieces with the real "
                        "multipliers were searched for a concrete counterexample")
        return out + [again]
    if obp is not None:
        obp.fallback = refine
    R.witness("tan/periodic-reach", [xi, ki], [c1, c2], z3.And(dom, ki > 5, xi > 1000), c1.out != 0, portfolio=("z3", "cvc5"))
    absx = z3.If(xi < 0, -xi, xi)
    atpole = (absx % PHI) == PHI2
    R.verify("tan/nan-at-pole", [xi], [c1], z3.And(xi > -LIM, xi < LIM, atpole), c1.out == NAN, portfolio=("z3", "cvc5"),
             note="|x| mod phi == fixpidiv2  =>  NaN  (the converse follows from accuracy on [-pi,pi] + exact period + oddness)")
    R.witness("tan/pole-reach", [xi], [c1], z3.And(xi > 1000000, atpole), c1.out == NAN, portfolio=("z3", "cvc5"))
    vec = {"tan": [[v] for v in (0, 1, -1, 51472, 51473, 102943, 102944, 102945, 205886, 205887, 205888, -102944, 308831,
                                 411774, 5000000, -5000000, 123456789012, (1 << 46) - 1, 65536, 150000, 180022)]}
    vec["tan"] += [[R.rng.randrange(-(1 << 40), 1 << 40)] for _ in range(30)]
    if R.selfcheck_units(h, vec, opts=E.Opts(int_mode=True)):
        raise Unsupported("INT encoding disagrees with the native build (see ENCODER-MISMATCH lines)")
    # ---------------------------------------------------------------- accuracy on [0, pi] (negative half by oddness)
    pole = int(mp.floor(mp.pi / 2 * 65536))      # 102943: the true pole lies in (102943, 102944)
    allp = piece_list(0, PI_RAW, pole)
    if R.quick():
        marks = {0, 51472, 51473, PHI2 - 1, PHI2, PHI2 + 1, PI_RAW, 154415, 154416, 102000, 104000}
        must = [p for p in allp if any(p[0] <= mk <= p[1] for mk in marks)]
        rest = [p for p in allp if p not in must and p[2] >= 6]
        R.rng.shuffle(rest)
        near = [p for p in allp if p[2] < 6 and p not in must]
        R.rng.shuffle(near)
        import math
        guided = R.tightest_pieces(h, "tan", [p for p in allp if not (p[0] <= PHI2 <= p[1])],
                                   lambda x: 65536 * math.tan(x / 65536.0),
                                   lambda x: 2.5 * (1 + math.tan(x / 65536.0) ** 2), k=10)
        sel = must + rest[:16] + near[:8]
        sel += [p for p in guided if p not in sel]
        R.bounds.append("quick tier: %d of %d pieces of [0, pi] (branch points, the pole's neighbourhood, and a VERIF_SEED "
                        "sample); thorough covers every raw x in [0, 205887]; the negative half follows from the proved "
                        "oddness" % (len(sel), len(allp)))
    else:
        sel = allp
        R.bounds.append("every raw x in [0, 205887] in %d pieces (256 values; 64 / 8 / 1 near the pole); negative half by "
                        "the proved oddness" % len(allp))
    for (lo, hi, bits) in sel:
        if lo <= PHI2 <= hi and lo == hi:
            continue     # the library's pole constant itself: NaN by tan/nan-at-pole
        subs = [(lo, hi)]
        if lo <= PHI2 <= hi:
            subs = [(lo, PHI2 - 1), (PHI2 + 1, hi)]
        for (l2, h2) in subs:
            if l2 > h2:
                continue
            if l2 <= pole and h2 >= pole + 1:
                parts = [(l2, pole), (pole + 1, h2)]       # never enclose across the true pole
            else:
                parts = [(l2, h2)]
            for (l3, h3) in parts:
                enc = O.enclose(*O.TAN, l3, h3)
                T = tol_lo(l3, h3)
                x, ins, dom = O.piece_var(l3, h3, max(bits, 1))

                def build(ab, enc=enc, T=T, x=x, ins=ins, dom=dom, l3=l3, h3=h3):
                    c = R.call(h, "tan", [x], opts=E.Opts(mul_ovf="bits" if ab else "exact"))
                    goal = O.within(enc, x, c.out, z3.BitVecVal(T, W), W)
                    return Ob("tan/acc/[%d,%d]" % (l3, h3), "verify", ins, [c], dom, goal, also_ub=True,
                              portfolio=("z3",), abstract=ab, timeout=120 if R.quick() else 900,
                              note="|tan(x) - true| <= 2.5 ulp * (1 + tan^2 x) and no UB on the piece")
                ob = build(True)
                ob.fallback = lambda b=build: b(False)
                R._add(ob)
