"""C12 asin / acos."""
import z3
import mpmath as mp
from ..core import *
from .. import build as B
from .. import encode as E
from .. import oracle as O

UNITS = [B.Unit("asin", [("a", "fx")], "i64", "return asin(a).v;"),
         B.Unit("acos", [("a", "fx")], "i64", "return acos(a).v;")]
SQRT_SYM = "_ZN9fixedmath4sqrtENS_7fixed_tE"
ONE = 65536
W = 96
s64 = z3.BitVecSort(64)
SQRTF = z3.Function("SQRTF", s64, s64)


def contract_term(y, r):
    """0 <= y < 2^48:  r >= 0, r < 2^32, (r-1)^2 < y*2^16 < (r+1)^2   (66-bit arithmetic is exact for r < 2^32)"""
    Wd = 66
    V = zx(y, Wd) << 16
    Rr = zx(z3.Extract(32, 0, r), Wd)
    return z3.And(r >= 0, r < val(1 << 32), z3.Or(Rr == 0, (Rr - 1) * (Rr - 1) < V), V < (Rr + 1) * (Rr + 1))


def sqrt_stub(ctx, args):
    """fixedmath::sqrt kept out of line and replaced by its contract (proved for both algorithms by C13):
       y < 0 -> NaN ; 0 <= y < 2^48 -> r >= 0, (r-1)^2 < y*2^16 < (r+1)^2 ; r is a function of y"""
    y = args[0]
    r = SQRTF(y)
    ctx.assume(z3.Implies(z3.And(y >= 0, y < val(1 << 48)), contract_term(y, r)))
    ctx.assume(z3.Implies(y < 0, r == val(NAN)))
    return r


def table_stub(ylo, yhi):
    """the same contract, expanded for the finitely many arguments a piece can produce: for every y in [ylo, yhi] the
    admissible results are exactly {isqrt(V), isqrt(V)+1} (only isqrt(V) if V = y*2^16 is a perfect square), computed with
    exact integer arithmetic.  Equivalent to contract_term on that range, and multiplier-free."""
    import math
    rows = []
    for yk in range(max(ylo, 0), yhi + 1):
        V = yk << 16
        sq = math.isqrt(V)
        rows.append((yk, sq, sq if sq * sq == V else sq + 1))

    def stub(ctx, args):
        y = args[0]
        r = SQRTF(y)
        inr = z3.And(y >= val(max(ylo, 0)), y <= val(yhi))
        alts = [z3.And(y == val(yk), r >= val(a), r <= val(b)) for yk, a, b in rows]
        ctx.assume(z3.Implies(inr, z3.Or(alts)))
        ctx.assume(z3.Implies(z3.And(y >= 0, y < val(1 << 48), z3.Not(inr)), contract_term(y, r)))
        ctx.assume(z3.Implies(y < 0, r == val(NAN)))
        return r
    return stub


def stub_apps(calls):
    out = []
    for c in calls:
        for name, args, r in c.res.calls:
            if name == SQRT_SYM:
                out.append((args[0], r))
    return out


def mono_lemmas(calls):
    """sqrt is non-decreasing (floor-sqrt: mathematics; std algorithm: composition of correctly rounded monotone steps)"""
    apps = stub_apps(calls)
    lem = []
    for i in range(len(apps)):
        for j in range(len(apps)):
            if i != j:
                (y1, r1), (y2, r2) = apps[i], apps[j]
                lem.append(z3.Implies(z3.And(y1 >= 0, y2 >= 0, y1 <= y2, y2 < val(1 << 48)), r1 <= r2))
    return lem


def asin_pieces():
    out = []
    x = 0
    while x <= ONE:
        d = ONE - x
        if d <= 320:
            bits = 0
        elif d <= 4096:
            bits = 6
        elif x > 39000:
            bits = 8
        else:
            bits = 10
        size = 1 << bits
        nxt = min((x // size + 1) * size - 1, ONE) if bits else x
        out.append((x, nxt, max(bits, 1)))
        x = nxt + 1
    return out


def run(R):
    h = R.harness("main", UNITS, noinline=[SQRT_SYM])
    a = BV("a")
    st = {SQRT_SYM: sqrt_stub}
    R.assume_note("fixedmath::sqrt is kept out of line and replaced by an uninterpreted function constrained by the contract "
                  "proved in C13 for both algorithms (|r - sqrt(y)*65536| < 1, r >= 0, NaN for y < 0) and, where two calls are "
                  "compared, by monotonicity of sqrt")
    R.outside.append("UB-freedom of asin is established piecewise on [0, 1] (inside the accuracy obligations); for x in [-1, 0) "
                     "the function negates x (no UB there) and runs the same code, which the oddness obligation compares "
                     "value-wise but does not re-check for UB")
    R.assume_note("accuracy: exists x' within 2 ulp with |asin_impl(x) - asin x'| <= 4 ulp  <=>  asin(max(x-2,-1)) - 4 <= "
                  "asin_impl(x) <= asin(min(x+2,1)) + 4 (asin is continuous and increasing); both sides enclosed by Taylor-2 "
                  "polynomials from mpmath")
    # ------------------------------------------------------------------ NaN exactly outside [-1, 1]
    o = E.Opts(stubs=st)
    for fn in ("asin", "acos"):
        c = R.call(h, fn, [a], opts=o)
        inside = z3.And(a <= val(ONE), a >= val(-ONE))
        R.verify("%s/nan-iff-outside" % fn, [a], [c], a != val(INT64_MIN), isnan_raw(c.out) == z3.Not(inside),
                 portfolio=("z3", "cvc5"), note="%s(x) is NaN exactly when |x| > 1" % fn)
        R.witness("%s/reach-stub-branch" % fn, [a], [c], z3.And(a > val(50000), a <= val(ONE)), c.out > val(1000))
    # ------------------------------------------------------------------ oddness
    def build_odd(ab):
        o2 = E.Opts(stubs=st, mul_uf=ab)
        c1 = R.call(h, "asin", [a], opts=o2)
        c2 = R.call(h, "asin", [-a], opts=o2)
        return Ob("asin/odd", "verify", [a], [c1, c2], z3.And(a <= val(ONE), a >= val(-ONE), a != 0), c2.out == -c1.out,
                  abstract=ab, comm_lemmas=False, note="asin(-x) == -asin(x) exactly on [-1, 1]")
    ob = build_odd(True)
    ob.fallback = lambda: build_odd(False)
    R._add(ob)
    c0 = R.call(h, "asin", [val(0)], opts=o)
    R.verify("asin/odd-at-zero", [], [c0], z3.BoolVal(True), c0.out == val(0))
    # ------------------------------------------------------------------ acos = pi/2 - asin within 1 ulp
    lo = int(mp.floor(mp.pi / 2 * ONE))

    def build_cmpl(ab):
        o2 = E.Opts(stubs=st, mul_uf=ab)
        c1, c2 = R.call(h, "acos", [a], opts=o2), R.call(h, "asin", [a], opts=o2)
        sm = c1.out + c2.out
        return Ob("acos/complement", "verify", [a], [c1, c2], z3.And(a <= val(ONE), a >= val(-ONE)),
                  z3.Or(sm == val(lo), sm == val(lo + 1)), portfolio=("z3", "cvc5"), abstract=ab, comm_lemmas=False,
                  note="|acos(x) - (pi/2 - asin(x))| <= 1 ulp: acos(x) + asin(x) in {102943, 102944}")
    ob = build_cmpl(True)
    ob.fallback = lambda: build_cmpl(False)
    R._add(ob)
    # ------------------------------------------------------------------ accuracy + monotone steps on [0, 1]
    allp = asin_pieces()
    if R.quick():
        marks = {0, 39321, 39322, ONE, ONE - 1, ONE - 320, ONE - 4096, 39000}
        must = [p for p in allp if any(p[0] <= mk <= p[1] for mk in marks)]
        rest = [p for p in allp if p not in must]
        R.rng.shuffle(rest)
        import math

        def asin_c(v):
            return math.asin(max(-1.0, min(1.0, v)))
        # backward-error form: distance of the result to the nearer end of [asin(x-2) - 4, asin(x+2) + 4]
        guided = R.tightest_pieces(
            h, "asin", [p for p in allp if p[1] < ONE], lambda x: 65536 * (asin_c((x - 2) / 65536.0) + asin_c((x + 2) / 65536.0)) / 2,
            lambda x: 4 + 65536 * (asin_c((x + 2) / 65536.0) - asin_c((x - 2) / 65536.0)) / 2, k=10)
        sel = must + rest[:16]
        sel += [p for p in guided if p not in sel]
        R.bounds.append("quick tier: %d of %d pieces of [0, 1] (branch points, both ends, a VERIF_SEED sample); thorough: every "
                        "raw x in [0, 65536]; negative half by the proved oddness" % (len(sel), len(allp)))
    else:
        sel = allp
        R.bounds.append("every raw x in [0, 65536] in %d pieces (1024 values on the series branch, 256 / 64 / 1 towards 1); "
                        "negative half by the proved oddness" % len(allp))
    for (lo_, hi_, bits) in sel:
        x, ins, dom = O.piece_var(lo_, hi_, bits)
        # lower bound: asin(x-2) - 4 ; upper: asin(x+2) + 4, clamped at the ends of [-1, 1]
        def enc_shift(sh):
            l2, h2 = lo_ + sh, hi_ + sh
            if h2 > ONE:
                return None
            e = O.enclose(*O.ASIN, l2, h2)
            e.m -= sh        # express in terms of x:  t = (x + sh) - m  =  x - (m - sh)
            return e
        e_lo, e_hi = enc_shift(-2), enc_shift(+2)
        # the sqrt argument on this piece: (1 - x) >> 1, one more value for the x+1 call of the monotonicity step
        ylo, yhi = (ONE - hi_ - 1) >> 1, (ONE - lo_) >> 1
        stp = {SQRT_SYM: table_stub(ylo, yhi)} if hi_ > 39000 else st
        o = E.Opts(stubs=stp)
        top = int(mp.floor(mp.pi / 2 * ONE * mp.mpf(2) ** O.SC))

        def build(ab, x=x, ins=ins, dom=dom, e_lo=e_lo, e_hi=e_hi, stp=stp, lo_=lo_, hi_=hi_):
            c = R.call(h, "asin", [x], opts=E.Opts(stubs=stp, mul_ovf="bits" if ab else "exact"))
            out = z3.SignExt(W - 64, c.out) << O.SC
            four = z3.BitVecVal(4 << O.SC, W)
            lower = out >= O.poly_term(e_lo, x, W) - z3.BitVecVal(e_lo.E, W) - four
            if e_hi is not None:
                upper = out <= O.poly_term(e_hi, x, W) + z3.BitVecVal(e_hi.E, W) + four
            else:
                upper = out <= z3.BitVecVal(top, W) + four
            return Ob("asin/acc/[%d,%d]" % (lo_, hi_), "verify", ins, [c], dom, z3.And(lower, upper), also_ub=True,
                      portfolio=("z3",), abstract=ab, timeout=300 if R.quick() else 900,
                      note="asin(x-2) - 4 <= asin_impl(x) <= asin(x+2) + 4 (ulp) and no UB on the piece")
        ob = build(True)
        ob.fallback = lambda b=build: b(False)
        R._add(ob)
        # acos(x) + asin(x) in {floor, ceil}(pi/2 * 65536) on the piece and on its mirror image (both evaluated for real)
        for sgn in (1, -1):
            xs = x if sgn == 1 else -x
            cA, cC = R.call(h, "asin", [xs], opts=o), R.call(h, "acos", [xs], opts=o)
            sm = cA.out + cC.out
            R.verify("acos/complement/[%d,%d]%s" % (lo_, hi_, "" if sgn == 1 else "/mirrored"), ins, [cA, cC], dom,
                     z3.Or(sm == val(lo), sm == val(lo + 1)), portfolio=("z3",), timeout=300 if R.quick() else 900,
                     note="|acos(x) - (pi/2 - asin(x))| <= 1 ulp on the piece%s" % ("" if sgn == 1 else " mirrored to [-1, 0]"))
        # monotone: asin_impl(x) <= asin_impl(x+1) for every x of the piece (x+1 <= 65536); two polynomial evaluations
        # are compared, so the 256-value pieces of the stub branch are quartered
        if lo_ < ONE:
            subs = [(lo_, hi_, bits)]
            if bits == 8 and hi_ > 39000:
                subs = [(lo_ + 64 * i, lo_ + 64 * i + 63, 6) for i in range(4) if lo_ + 64 * i <= hi_]
                subs = [(l, min(h2, hi_), b) for l, h2, b in subs]
            for (l4, h4, b4) in subs:
                x4, ins4, dom4 = O.piece_var(l4, h4, b4)
                cA = R.call(h, "asin", [x4], opts=o)
                cB = R.call(h, "asin", [x4 + 1], opts=o)
                cA.encode()
                cB.encode()
                R.verify("asin/mono/[%d,%d]" % (l4, h4), ins4, [cA, cB], z3.And(dom4, x4 < val(ONE)), cA.out <= cB.out,
                         extra_asserts=mono_lemmas([cA, cB]), portfolio=("z3",), timeout=300 if R.quick() else 900,
                         note="adjacent-step monotonicity asin(x) <= asin(x+1) on the piece (chains to the whole of [-1,1] "
                              "together with oddness)")
