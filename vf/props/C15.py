"""C15 floor / ceil."""
import z3
from ..core import *
from .. import build as B

UNITS = [
    B.Unit("floor", [("a", "fx")], "i64", "return floor(a).v;"),
    B.Unit("ceil", [("a", "fx")], "i64", "return ceil(a).v;"),
    B.Unit("negfloorneg", [("a", "fx")], "i64", "return (-floor(-a)).v;"),
]
LIM = (1 << 63) - 65536   # (2^47 - 1) * 65536


def run(R):
    h = R.harness("main", UNITS)
    a = BV("a")
    D = z3.And(a > val(-LIM), a < val(LIM))
    R.bounds.append("every raw x with |x| < (2^47-1)*65536, symbolic; loop-free")
    W = 66
    A = sx(a, W)
    one = val(65536, W)
    f = R.call(h, "floor", [a])
    c = R.call(h, "ceil", [a])
    n = R.call(h, "negfloorneg", [a])
    intval = lambda o: z3.Extract(15, 0, o) == val(0, 16)
    R.verify("floor/bracket", [a], [f], D, z3.And(intval(f.out), sx(f.out, W) <= A, A < sx(f.out, W) + one))
    R.verify("ceil/bracket", [a], [c], D, z3.And(intval(c.out), sx(c.out, W) - one < A, A <= sx(c.out, W)))
    R.verify("ceil/equals-neg-floor-neg", [a], [c, n], D, c.out == n.out)
    R.verify("floor/identity-on-integers", [a], [f], z3.And(D, intval(a)), f.out == a)
    R.verify("ceil/identity-on-integers", [a], [c], z3.And(D, intval(a)), c.out == a)
    R.verify_noub("floor/no-UB", [a], [f], D)
    R.verify_noub("ceil/no-UB", [a], [c], D)
    R.witness("ceil/reach-noninteger", [a], [c], z3.And(D, z3.Not(intval(a))), z3.Not(isnan_raw(c.out)))
    R.witness("floor/reach-negative", [a], [f], z3.And(D, a < 0), f.out < a)
    # the optimised code computes what the source computes (every wrapper, clang -O2)
    R.tv_guard(h, UNITS)
