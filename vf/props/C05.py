"""C05 floating <-> fixed conversion."""
import z3
from ..core import *
from .. import build as B
from .. import encode as E

FT = {"f32": "float", "f64": "double"}


def units():
    us = []
    for k, t in FT.items():
        us += [B.Unit("ctor_" + k, [("v", k)], "i64", "return fixed_t(v).v;"),
               B.Unit("f2fx_" + k, [("v", k)], "i64", "return floating_point_to_fixed(v).v;"),
               B.Unit("mk_" + k, [("v", k)], "i64", "return make_fixed(v).v;"),
               B.Unit("cast_" + k, [("a", "fx")], k, "return static_cast<%s>(a);" % t),
               B.Unit("fx2f_" + k, [("a", "fx")], k, "return fixed_to_floating_point<%s>(a);" % t),
               B.Unit("fx2a_" + k, [("a", "fx")], k, "return fixed_to_arithmetic<%s>(a);" % t),
               B.Unit("rt_" + k, [("a", "fx")], "i64", "return fixed_t(static_cast<%s>(a)).v;" % t)]
    us.append(B.Unit("lit_ld", [("v", "f64")], "i64", "return operator\"\"_fix(static_cast<long double>(v)).v;"))
    return us


FMT = {"f32": (8, 23, 127), "f64": (11, 52, 1023)}
W = 192


def decode(bits, k):
    """(is_finite, negative, mantissa (W bits), e) with value = (-1)^neg * mant * 2^e, e as signed W-bit integer"""
    eb, mb, bias = FMT[k]
    w = 1 + eb + mb
    neg = z3.Extract(w - 1, w - 1, bits) == val(1, 1)
    E_ = z3.Extract(w - 2, mb, bits)
    F = z3.Extract(mb - 1, 0, bits)
    isfin = E_ != val((1 << eb) - 1, eb)
    mant = z3.If(E_ == val(0, eb), zx(F, W), zx(F, W) | val(1 << mb, W))
    e = z3.If(E_ == val(0, eb), val(1, W), zx(E_, W)) - val(bias + mb, W)
    return isfin, neg, mant, e


def run(R):
    h = R.harness("main", units())
    a = BV("a")
    R.bounds.append("all 2^32 float and all 2^64 double bit patterns (symbolic); all raw values for fixed->fp; "
                    "|raw| < 2^47 for the round trip; llvm.fmuladd encoded fused AND unfused")
    R.assume_note("'at most half an ulp, up to one floating rounding of the scaling step' is formalised as "
                  "|raw - v*65536| <= 1/2 + 1/2*ulp_src(|v*65536| + 1/2): the scaling step computes v*65536 (exact) + 0.5 with ONE "
                  "rounding in the source format, whose error is at most half the format's spacing at the exact sum; the "
                  "reading without the second term is violated by the unchanged code at float 0x43045fff (132.37498) and is "
                  "what the property's own parenthesis excuses")
    R.assume_note("round trip fixed->double->fixed is claimed on |x| < 2^31 - 1 only: the property's first clause makes every "
                  "double with |v| >= 2^31-1 convert to NaN, which contradicts its round-trip clause on [2^31-1, 2^31); the "
                  "code follows the first clause, and so does this check (DESIGN.md, C05)")
    R.assume_note("IEEE-754 binary32/binary64 with round-to-nearest-even, no x87 excess precision (x86-64 SSE)")
    for k in FT:
        w = B.WIDTH[k]
        v = BV("v", w)
        isfin, neg, mant, e = decode(v, k)
        eb, mb, bias = FMT[k]
        # |v| < 2^31 - 1  <=>  mant * 2^e < 2147483647 ; compare in W bits at scale 2^-1100 is too wide, so use the order of
        # IEEE bit patterns: for finite non-negative floats the value order is the order of the magnitude bits.
        lim_bits = B.fp_bits_of(k, 2147483647.0)
        mag = z3.Extract(w - 2, 0, v)
        inrange = z3.And(isfin, z3.ULT(zx(mag, w), val(lim_bits, w)))
        for fma in ("fused", "unfused"):
            o = E.Opts(fma=fma)
            for u in ("ctor_", "f2fx_", "mk_"):
                c = R.call(h, u + k, [v], opts=o)
                S = 80     # everything scaled by 2^80
                # y = v*65536 = mant * 2^(e+16); scaled: mant << (e+16+S) when e+16+S >= 0
                sh = e + val(16 + S, W)
                big = sh >= 0
                y = mant << sh
                y = z3.If(neg, -y, y)
                # one rounding of the scaling step: the exact sum |y| + 1/2 lies in a binade [2^t, 2^(t+1)) (scaled index
                # t); the source format's spacing there is 2^(t-mb), so the rounded sum is within 2^(t-mb-1) of it
                sS = (mant << sh) + val(1 << (S - 1), W)
                t = val(0, W)
                for i in range(W):
                    t = z3.If(z3.Extract(i, i, sS) == val(1, 1), val(i, W), t)
                rawS = sx(c.out, W) << S
                tol = val(1 << (S - 1), W) + (val(1, W) << (t - val(mb + 1, W)))
                d = rawS - y
                near = z3.And(d <= tol, d >= -tol)
                R.verify("%s%s/%s/nearest-in-range" % (u, k, fma), [v], [c], inrange,
                         z3.If(big, near, c.out == val(0)),
                         note="finite |v| < 2^31-1: |raw - v*65536| <= 1/2 + 1/2 ulp_src(|v*65536| + 1/2); tiny v must give 0")
                R.verify("%s%s/%s/nan-outside" % (u, k, fma), [v], [c], z3.Not(inrange), c.out == val(NAN),
                         note="too large, infinite or NaN => quiet NaN")
                R.verify_noub("%s%s/%s/no-UB" % (u, k, fma), [v], [c], z3.BoolVal(True),
                              note="no float-cast-overflow for any bit pattern")
            c = R.call(h, "ctor_" + k, [v], opts=E.Opts(fma=fma))
            R.witness("ctor_%s/%s/reach-odd" % (k, fma), [v], [c], inrange, z3.Extract(0, 0, c.out) == val(1, 1))
        # fused and unfused must agree (contraction cannot change a result)
        c1 = R.call(h, "ctor_" + k, [v], opts=E.Opts(fma="fused"))
        c2 = R.call(h, "ctor_" + k, [v], opts=E.Opts(fma="unfused"))
        R.verify("ctor_%s/fused-equals-unfused" % k, [v], [c1, c2], z3.BoolVal(True), c1.out == c2.out,
                 note="floating-point contraction (fma) of value*65536+0.5 does not change any result")
        # fixed -> floating
        for u in ("cast_", "fx2f_", "fx2a_"):
            c = R.call(h, u + k, [a])
            ofin, oneg, omant, oe = decode(c.out, k)
            if k == "f64":
                lim = val(1 << 53)
                # raw * 2^-16 == +-omant * 2^oe   <=>  |raw| << 60 == omant << (oe + 76)
                shv = oe + val(76, W)
                ok = z3.If(a == 0, c.out == val(0),
                           z3.And(ofin, shv >= 0, (zx(sabs(a), W) << 60) == (omant << shv), oneg == (a < 0)))
                R.verify("%s%s/exact-upto-2^53" % (u, k), [a], [c], z3.And(a <= lim, a >= -lim), ok,
                         note="fixed -> double is exact for |raw| <= 2^53 (independent decode of the result bits)")
            S32, S64 = z3.Float32(), z3.Float64()
            if k == "f32":
                exp = z3.fpDiv(z3.RNE(), z3.fpSignedToFP(z3.RNE(), a, S32), z3.FPVal(65536.0, S32))
            else:
                exp = z3.fpDiv(z3.RNE(), z3.fpSignedToFP(z3.RNE(), a, S64), z3.FPVal(65536.0, S64))
            R.verify("%s%s/correctly-rounded" % (u, k), [a], [c], z3.BoolVal(True), c.out == z3.fpToIEEEBV(exp),
                     note="fixed -> fp equals RNE(raw) scaled by 2^-16 (single rounding, no intermediate format)")
            R.verify_noub("%s%s/no-UB" % (u, k), [a], [c], z3.BoolVal(True))
        c = R.call(h, "rt_" + k, [a])
        lim = val(((1 << 31) - 1) << 16) if k == "f64" else val(1 << 23)
        R.verify("rt_%s/identity" % k, [a], [c], z3.And(a < lim, a > -lim), c.out == a,
                 note="fixed -> %s -> fixed is the identity on |raw| < %s" % (FT[k], "(2^31-1)*2^16" if k == "f64" else "2^23 (extra, not claimed by the property)"))
    v = BV("v", 64)
    c = R.call(h, "lit_ld", [v])
    c2 = R.call(h, "ctor_f64", [v])
    R.verify("lit_ld/equals-double-conversion", [v], [c, c2], z3.BoolVal(True), c.out == c2.out)
