"""Parser for the subset of LLVM-14 textual IR that clang emits for fixed_math wrappers.

The result is a Module with named struct types, constant globals (flattened to
byte-addressed scalar cells) and Functions made of basic blocks of Instr records.
Anything outside the subset raises Unsupported, which callers turn into an
INCONCLUSIVE verdict (never into a violation and never into success).
"""
import re
import struct


class Unsupported(Exception):
    pass


# ----------------------------------------------------------------------------- types
class Ty:
    pass


class IntTy(Ty):
    def __init__(self, w):
        self.w = w

    def __repr__(self):
        return "i%d" % self.w

    def __eq__(self, o):
        return isinstance(o, IntTy) and o.w == self.w

    def __hash__(self):
        return hash(("i", self.w))


class FpTy(Ty):
    def __init__(self, kind):
        self.kind = kind  # 'float' | 'double'

    def __repr__(self):
        return self.kind

    def __eq__(self, o):
        return isinstance(o, FpTy) and o.kind == self.kind

    def __hash__(self):
        return hash(("f", self.kind))


class PtrTy(Ty):
    def __init__(self, to):
        self.to = to

    def __repr__(self):
        return "%r*" % (self.to,)


class ArrTy(Ty):
    def __init__(self, n, el):
        self.n, self.el = n, el

    def __repr__(self):
        return "[%d x %r]" % (self.n, self.el)


class StructTy(Ty):
    def __init__(self, fields, packed=False):
        self.fields, self.packed = fields, packed

    def __repr__(self):
        return "{%s}" % ", ".join(map(repr, self.fields))


class NamedTy(Ty):
    def __init__(self, name):
        self.name = name

    def __repr__(self):
        return "%" + self.name


class VoidTy(Ty):
    def __repr__(self):
        return "void"


class FuncTy(Ty):
    def __repr__(self):
        return "fn"


# ----------------------------------------------------------------------------- operands
class Op:
    """kind: 'reg' (name), 'int' (value), 'fp' (bits as int, per type), 'global' (name),
    'null', 'undef', 'zero', 'cexpr' (opcode, args), 'agg' (list of (ty, op))"""

    __slots__ = ("kind", "v", "ty")

    def __init__(self, kind, v=None, ty=None):
        self.kind, self.v, self.ty = kind, v, ty

    def __repr__(self):
        return "%s:%r" % (self.kind, self.v)


class Instr:
    __slots__ = ("op", "dest", "ty", "args", "flags", "extra", "line", "text")

    def __init__(self, op, dest=None, ty=None, args=None, flags=(), extra=None, line=0, text=""):
        self.op, self.dest, self.ty, self.args = op, dest, ty, args or []
        self.flags, self.extra, self.line, self.text = frozenset(flags), extra, line, text

    def __repr__(self):
        return self.text.strip()


class Function:
    def __init__(self, name, ret, params):
        self.name, self.ret, self.params = name, ret, params
        self.blocks = {}  # label -> [Instr]
        self.order = []
        self.attrs = ""


class Global:
    def __init__(self, name, ty, init, const):
        self.name, self.ty, self.init, self.const = name, ty, init, const
        self.cells = None  # {byte offset: (width_bits|'float'|'double', value)}
        self.size = 0


class Module:
    def __init__(self):
        self.types = {}
        self.globals = {}
        self.funcs = {}
        self.decls = set()

    # --- data layout (x86-64 SysV as stated by the IR's target datalayout)
    def resolve(self, ty):
        while isinstance(ty, NamedTy):
            if ty.name not in self.types:
                raise Unsupported("opaque type %" + ty.name)
            ty = self.types[ty.name]
        return ty

    def sizeof(self, ty):
        ty = self.resolve(ty)
        if isinstance(ty, IntTy):
            return max(1, (ty.w + 7) // 8) if ty.w <= 64 else 16
        if isinstance(ty, FpTy):
            return {"float": 4, "double": 8, "x86_fp80": 16}[ty.kind]
        if isinstance(ty, PtrTy):
            return 8
        if isinstance(ty, ArrTy):
            return ty.n * self.sizeof(ty.el)
        if isinstance(ty, StructTy):
            off = 0
            for f in ty.fields:
                a = 1 if ty.packed else self.alignof(f)
                off = (off + a - 1) // a * a + self.sizeof(f)
            a = 1 if ty.packed else self.alignof(ty)
            return (off + a - 1) // a * a
        raise Unsupported("sizeof %r" % (ty,))

    def alignof(self, ty):
        ty = self.resolve(ty)
        if isinstance(ty, IntTy):
            s = self.sizeof(ty)
            return min(s, 16) if s in (1, 2, 4, 8, 16) else 8
        if isinstance(ty, FpTy):
            return self.sizeof(ty)
        if isinstance(ty, PtrTy):
            return 8
        if isinstance(ty, ArrTy):
            return self.alignof(ty.el)
        if isinstance(ty, StructTy):
            if ty.packed or not ty.fields:
                return 1
            return max(self.alignof(f) for f in ty.fields)
        raise Unsupported("alignof %r" % (ty,))

    def field_offset(self, ty, idx):
        ty = self.resolve(ty)
        off = 0
        for i, f in enumerate(ty.fields):
            a = 1 if ty.packed else self.alignof(f)
            off = (off + a - 1) // a * a
            if i == idx:
                return off, f
            off += self.sizeof(f)
        raise Unsupported("field index")

    def flatten(self, ty, init, base, cells):
        ty = self.resolve(ty)
        if init.kind == "zero" or init.kind == "undef":
            if isinstance(ty, (IntTy, FpTy)):
                cells[base] = (ty.w if isinstance(ty, IntTy) else ty.kind, 0)
            elif isinstance(ty, ArrTy):
                s = self.sizeof(ty.el)
                for i in range(ty.n):
                    self.flatten(ty.el, init, base + i * s, cells)
            elif isinstance(ty, StructTy):
                for i, f in enumerate(ty.fields):
                    o, _ = self.field_offset(ty, i)
                    self.flatten(f, init, base + o, cells)
            elif isinstance(ty, PtrTy):
                cells[base] = (64, 0)
            else:
                raise Unsupported("zeroinit of %r" % (ty,))
            return
        if isinstance(ty, IntTy):
            if init.kind != "int":
                raise Unsupported("global init %r" % (init,))
            cells[base] = (ty.w, init.v & ((1 << ty.w) - 1))
        elif isinstance(ty, FpTy):
            cells[base] = (ty.kind, init.v)
        elif isinstance(ty, ArrTy):
            s = self.sizeof(ty.el)
            if init.kind == "cstr":
                for i, b in enumerate(init.v):
                    cells[base + i] = (8, b)
                return
            if init.kind != "agg" or len(init.v) != ty.n:
                raise Unsupported("array init")
            for i, (t, o) in enumerate(init.v):
                self.flatten(ty.el, o, base + i * s, cells)
        elif isinstance(ty, StructTy):
            if init.kind != "agg":
                raise Unsupported("struct init")
            for i, (t, o) in enumerate(init.v):
                off, f = self.field_offset(ty, i)
                self.flatten(f, o, base + off, cells)
        else:
            raise Unsupported("global init of %r" % (ty,))


# ----------------------------------------------------------------------------- tokenizer
TOK = re.compile(
    r"""\s*(?:
    (?P<str>c?"(?:[^"\\]|\\.)*")            |
    (?P<reg>[%@](?:"(?:[^"\\]|\\.)*"|[-a-zA-Z$._0-9]+)) |
    (?P<meta>![-a-zA-Z$._0-9]*(?:\([^)]*\))?) |
    (?P<attr>\#\d+)                        |
    (?P<hex>0x[KLMHR]?[0-9A-Fa-f]+)        |
    (?P<num>-?\d+\.\d*(?:[eE][-+]?\d+)?|-?\d+) |
    (?P<word>[a-zA-Z_][-a-zA-Z_0-9.]*)     |
    (?P<dots>\.\.\.)                       |
    (?P<punct>[=,()\[\]{}<>*:|])
    )""",
    re.X,
)


def tokenize(s):
    out = []
    pos = 0
    n = len(s)
    while pos < n:
        m = TOK.match(s, pos)
        if not m:
            if s[pos:].strip() == "":
                break
            raise Unsupported("cannot tokenize: %r" % s[pos:pos + 40])
        pos = m.end()
        k = m.lastgroup
        out.append((k, m.group(k)))
    return out


def unq(name):
    # %"foo bar" -> foo bar ; %x -> x ; keeps sigil separately
    body = name[1:]
    if body.startswith('"'):
        body = body[1:-1]
    return body


class P:
    """token cursor"""

    def __init__(self, toks, mod):
        self.t, self.i, self.mod = toks, 0, mod

    def peek(self, k=0):
        return self.t[self.i + k] if self.i + k < len(self.t) else (None, None)

    def next(self):
        x = self.peek()
        self.i += 1
        return x

    def accept(self, val):
        if self.peek()[1] == val:
            self.i += 1
            return True
        return False

    def expect(self, val):
        k, v = self.next()
        if v != val:
            raise Unsupported("expected %r got %r" % (val, v))

    def done(self):
        return self.i >= len(self.t)

    # ---- types
    def type(self):
        k, v = self.next()
        if k == "word":
            if re.fullmatch(r"i\d+", v):
                ty = IntTy(int(v[1:]))
            elif v in ("float", "double", "x86_fp80"):
                ty = FpTy(v)
            elif v == "void":
                ty = VoidTy()
            elif v == "ptr":
                ty = PtrTy(IntTy(8))
            elif v in ("half", "fp128", "label", "metadata", "token"):
                raise Unsupported("type " + v)
            else:
                raise Unsupported("type word %r" % v)
        elif k == "reg" and v[0] == "%":
            ty = NamedTy(unq(v))
        elif v == "[":
            n = int(self.next()[1])
            self.expect("x")
            el = self.type()
            self.expect("]")
            ty = ArrTy(n, el)
        elif v == "{":
            fields = []
            if not self.accept("}"):
                while True:
                    fields.append(self.type())
                    if self.accept("}"):
                        break
                    self.expect(",")
            ty = StructTy(fields)
        elif v == "<":
            if self.peek()[1] == "{":
                self.next()
                fields = []
                if not self.accept("}"):
                    while True:
                        fields.append(self.type())
                        if self.accept("}"):
                            break
                        self.expect(",")
                self.expect(">")
                ty = StructTy(fields, packed=True)
            else:
                raise Unsupported("vector type")
        else:
            raise Unsupported("type token %r" % v)
        # suffixes: pointers, function types
        while True:
            if self.accept("*"):
                ty = PtrTy(ty)
            elif self.peek()[1] == "(" :
                # function type:  ret (args)  -- only appears as callee type / ptr-to-function
                depth = 0
                while True:
                    k2, v2 = self.next()
                    if v2 == "(":
                        depth += 1
                    elif v2 == ")":
                        depth -= 1
                        if depth == 0:
                            break
                ty = FuncTy()
            elif self.peek()[1] == "addrspace":
                raise Unsupported("addrspace")
            else:
                break
        return ty

    # ---- constants / operands of a given type
    def operand(self, ty):
        k, v = self.next()
        rty = self.mod.resolve(ty) if isinstance(ty, NamedTy) and ty.name in self.mod.types else ty
        if k == "reg":
            if v[0] == "%":
                return Op("reg", unq(v), ty)
            return Op("global", unq(v), ty)
        if k == "num":
            if isinstance(rty, IntTy):
                return Op("int", int(v), ty)
            if isinstance(rty, FpTy):
                return Op("fp", fp_bits(rty.kind, float(v)), ty)
            raise Unsupported("number for type %r" % (ty,))
        if k == "hex":
            if isinstance(rty, FpTy):
                if v[2] == "K" and rty.kind == "x86_fp80":
                    return Op("fp", int(v[3:], 16), ty)
                if v[2] in "KLMHR":
                    raise Unsupported("exotic fp literal")
                bits = int(v, 16)
                if rty.kind == "float":
                    d = struct.unpack("<d", struct.pack("<Q", bits))[0]
                    bits = struct.unpack("<I", struct.pack("<f", d))[0]
                return Op("fp", bits, ty)
            raise Unsupported("hex literal for %r" % (ty,))
        if k == "word":
            if v == "true":
                return Op("int", 1, ty)
            if v == "false":
                return Op("int", 0, ty)
            if v == "null":
                return Op("null", None, ty)
            if v in ("undef", "poison"):
                return Op("undef", None, ty)
            if v == "zeroinitializer":
                return Op("zero", None, ty)
            if v in ("getelementptr", "bitcast", "ptrtoint", "inttoptr", "trunc", "zext", "sext",
                     "add", "sub", "mul", "shl", "lshr", "ashr", "and", "or", "xor", "icmp", "select"):
                return self.cexpr(v, ty)
        if k == "str" and v.startswith("c"):
            return Op("cstr", cstr_bytes(v[2:-1]), ty)
        if v == "[" or v == "{":
            close = "]" if v == "[" else "}"
            items = []
            if not self.accept(close):
                while True:
                    t = self.type()
                    items.append((t, self.operand(t)))
                    if self.accept(close):
                        break
                    self.expect(",")
            return Op("agg", items, ty)
        if v == "<":
            raise Unsupported("vector/packed constant")
        raise Unsupported("operand %r" % v)

    def cexpr(self, opc, ty):
        flags = []
        while self.peek()[1] in ("inbounds", "nsw", "nuw", "exact"):
            flags.append(self.next()[1])
        self.expect("(")
        if opc == "getelementptr":
            base_ty = self.type()
            self.expect(",")
            args = []
            while True:
                t = self.type()
                args.append(self.operand(t))
                if self.accept(")"):
                    break
                self.expect(",")
            return Op("cexpr", ("getelementptr", base_ty, args, flags), ty)
        if opc in ("bitcast", "ptrtoint", "inttoptr", "trunc", "zext", "sext"):
            t = self.type()
            a = self.operand(t)
            self.expect("to")
            t2 = self.type()
            self.expect(")")
            return Op("cexpr", (opc, a, t2), ty)
        raise Unsupported("constant expression " + opc)


def fp_bits(kind, x):
    if kind == "float":
        return struct.unpack("<I", struct.pack("<f", x))[0]
    return struct.unpack("<Q", struct.pack("<d", x))[0]


def cstr_bytes(s):
    out = []
    i = 0
    while i < len(s):
        if s[i] == "\\":
            out.append(int(s[i + 1:i + 3], 16))
            i += 3
        else:
            out.append(ord(s[i]))
            i += 1
    return out


BINOPS = {"add", "sub", "mul", "shl", "lshr", "ashr", "and", "or", "xor", "sdiv", "udiv", "srem", "urem"}
FBINOPS = {"fadd", "fsub", "fmul", "fdiv", "frem"}
CASTS = {"zext", "sext", "trunc", "sitofp", "uitofp", "fptosi", "fptoui", "fpext", "fptrunc", "bitcast",
         "ptrtoint", "inttoptr"}
FMF = {"nnan", "ninf", "nsz", "arcp", "contract", "afn", "reassoc", "fast"}


def strip_meta(line):
    # remove trailing ", !dbg !12, !tbaa !3" style metadata and comments
    if ";" in line:
        # comments never occur inside the strings we care about for instructions
        q = line.find(";")
        if line.count('"', 0, q) % 2 == 0:
            line = line[:q]
    line = re.sub(r"(,\s*![-a-zA-Z._0-9]+\s+![-a-zA-Z._0-9]+(\([^)]*\))?)+\s*$", "", line)
    return line.rstrip()


def parse_instr(line, mod, lineno):
    text = line
    line = strip_meta(line)
    toks = tokenize(line)
    p = P(toks, mod)
    dest = None
    if len(toks) > 1 and toks[0][0] == "reg" and toks[1][1] == "=":
        dest = unq(toks[0][1])
        p.i = 2
    k, opc = p.next()
    mk = lambda **kw: Instr(opc, dest=dest, line=lineno, text=text, **kw)
    if opc in ("tail", "musttail", "notail"):
        k, opc = p.next()
    if opc in BINOPS:
        flags = []
        while p.peek()[1] in ("nsw", "nuw", "exact"):
            flags.append(p.next()[1])
        ty = p.type()
        a = p.operand(ty)
        p.expect(",")
        b = p.operand(ty)
        return mk(ty=ty, args=[a, b], flags=flags)
    if opc in FBINOPS or opc == "fneg":
        flags = []
        while p.peek()[1] in FMF:
            flags.append(p.next()[1])
        ty = p.type()
        a = p.operand(ty)
        if opc == "fneg":
            return mk(ty=ty, args=[a], flags=flags)
        p.expect(",")
        b = p.operand(ty)
        return mk(ty=ty, args=[a, b], flags=flags)
    if opc in ("icmp", "fcmp"):
        flags = []
        while p.peek()[1] in FMF:
            flags.append(p.next()[1])
        pred = p.next()[1]
        ty = p.type()
        a = p.operand(ty)
        p.expect(",")
        b = p.operand(ty)
        return mk(ty=IntTy(1), args=[a, b], extra=(pred, ty), flags=flags)
    if opc in CASTS:
        ty = p.type()
        a = p.operand(ty)
        p.expect("to")
        ty2 = p.type()
        return mk(ty=ty2, args=[a], extra=ty)
    if opc == "select":
        while p.peek()[1] in FMF:
            p.next()
        tc = p.type()
        c = p.operand(tc)
        p.expect(",")
        t1 = p.type()
        a = p.operand(t1)
        p.expect(",")
        t2 = p.type()
        b = p.operand(t2)
        return mk(ty=t1, args=[c, a, b])
    if opc == "phi":
        while p.peek()[1] in FMF:
            p.next()
        ty = p.type()
        inc = []
        while True:
            p.expect("[")
            v = p.operand(ty)
            p.expect(",")
            lab = unq(p.next()[1])
            p.expect("]")
            inc.append((v, lab))
            if not p.accept(","):
                break
        return mk(ty=ty, args=[v for v, _ in inc], extra=[l for _, l in inc])
    if opc == "br":
        if p.peek()[1] == "label":
            p.next()
            return mk(extra=[unq(p.next()[1])])
        ty = p.type()
        c = p.operand(ty)
        p.expect(",")
        p.expect("label")
        t = unq(p.next()[1])
        p.expect(",")
        p.expect("label")
        f = unq(p.next()[1])
        return mk(args=[c], extra=[t, f])
    if opc == "switch":
        ty = p.type()
        c = p.operand(ty)
        p.expect(",")
        p.expect("label")
        dflt = unq(p.next()[1])
        p.expect("[")
        cases = []
        while not p.accept("]"):
            t = p.type()
            v = p.operand(t)
            p.expect(",")
            p.expect("label")
            cases.append((v.v, unq(p.next()[1])))
        return mk(ty=ty, args=[c], extra=(dflt, cases))
    if opc == "ret":
        ty = p.type()
        if isinstance(ty, VoidTy):
            return mk(ty=ty)
        return mk(ty=ty, args=[p.operand(ty)])
    if opc == "unreachable":
        return mk()
    if opc == "freeze":
        ty = p.type()
        return mk(ty=ty, args=[p.operand(ty)])
    if opc == "alloca":
        ty = p.type()
        n = None
        if p.accept(","):
            if p.peek()[1] == "align":
                pass
            else:
                t = p.type()
                n = p.operand(t)
        return mk(ty=ty, args=[n] if n else [])
    if opc == "load":
        while p.peek()[1] in ("volatile", "atomic"):
            raise Unsupported("volatile/atomic load")
        ty = p.type()
        p.expect(",")
        pty = p.type()
        ptr = p.operand(pty)
        return mk(ty=ty, args=[ptr])
    if opc == "store":
        if p.peek()[1] in ("volatile", "atomic"):
            raise Unsupported("volatile/atomic store")
        ty = p.type()
        v = p.operand(ty)
        p.expect(",")
        pty = p.type()
        ptr = p.operand(pty)
        return mk(ty=ty, args=[v, ptr])
    if opc == "getelementptr":
        flags = []
        if p.accept("inbounds"):
            flags.append("inbounds")
        bty = p.type()
        p.expect(",")
        args = []
        while True:
            t = p.type()
            args.append(p.operand(t))
            if not p.accept(","):
                break
        return mk(ty=bty, args=args, flags=flags)
    if opc == "extractvalue":
        ty = p.type()
        a = p.operand(ty)
        idx = []
        while p.accept(","):
            idx.append(int(p.next()[1]))
        return mk(ty=ty, args=[a], extra=idx)
    if opc == "insertvalue":
        ty = p.type()
        a = p.operand(ty)
        p.expect(",")
        t2 = p.type()
        b = p.operand(t2)
        idx = []
        while p.accept(","):
            idx.append(int(p.next()[1]))
        return mk(ty=ty, args=[a, b], extra=idx)
    if opc == "call":
        flags = []
        while p.peek()[1] in FMF:
            flags.append(p.next()[1])
        # return attributes
        while p.peek()[1] in ("noundef", "signext", "zeroext", "nonnull", "noalias", "inreg") or \
                (p.peek()[1] in ("dereferenceable", "align", "dereferenceable_or_null") and skip_paren_attr(p)):
            if p.peek()[1] in ("noundef", "signext", "zeroext", "nonnull", "noalias", "inreg"):
                p.next()
        rty = p.type()
        k2, callee = p.next()
        if k2 != "reg" or callee[0] != "@":
            raise Unsupported("indirect call")
        p.expect("(")
        args = []
        if not p.accept(")"):
            while True:
                t = p.type()
                while True:
                    w = p.peek()[1]
                    if w in ("noundef", "signext", "zeroext", "nonnull", "noalias", "nocapture", "readonly",
                             "writeonly", "immarg", "returned", "inreg", "nofree", "readnone"):
                        p.next()
                    elif w in ("dereferenceable", "align", "dereferenceable_or_null", "byval", "sret"):
                        p.next()
                        if p.peek()[1] == "(":
                            d = 0
                            while True:
                                v3 = p.next()[1]
                                if v3 == "(":
                                    d += 1
                                if v3 == ")":
                                    d -= 1
                                    if d == 0:
                                        break
                        else:
                            p.next()
                    else:
                        break
                if p.peek()[0] == "meta" or p.peek()[1] == "metadata":
                    raise Unsupported("metadata argument")
                args.append(p.operand(t))
                if p.accept(")"):
                    break
                p.expect(",")
        return mk(ty=rty, args=args, extra=unq(callee), flags=flags)
    raise Unsupported("instruction %r" % opc)


def skip_paren_attr(p):
    p.next()
    if p.peek()[1] == "(":
        while p.next()[1] != ")":
            pass
    return True


DEFINE = re.compile(r"^define\s+(.*?)@(\"[^\"]+\"|[-a-zA-Z$._0-9]+)\s*\((.*)\)\s*([^{]*)\{\s*$")


def parse_module(text):
    mod = Module()
    lines = text.split("\n")
    i = 0
    n = len(lines)
    pending_globals = []
    while i < n:
        line = lines[i]
        i += 1
        s = line.strip()
        if not s or s.startswith(";") or s.startswith("source_filename") or s.startswith("target ") \
                or s.startswith("attributes ") or s.startswith("!") or s.startswith("module asm"):
            continue
        if s.startswith("declare "):
            m = re.search(r"@(\"[^\"]+\"|[-a-zA-Z$._0-9]+)\s*\(", s)
            if m:
                mod.decls.add(m.group(1).strip('"'))
            continue
        if s.startswith("%") and re.match(r'^%("[^"]+"|[-a-zA-Z$._0-9]+)\s*=\s*type\s', s):
            m = re.match(r'^(%(?:"[^"]+"|[-a-zA-Z$._0-9]+))\s*=\s*type\s+(.*)$', s)
            name = unq(m.group(1))
            body = m.group(2).strip()
            if body == "opaque":
                continue
            try:
                mod.types[name] = P(tokenize(body), mod).type()
            except Unsupported:
                pass  # unused exotic types (iostream internals) are tolerated until somebody needs them
            continue
        if s.startswith("@"):
            pending_globals.append((s, i))
            continue
        if s.startswith("define "):
            m = DEFINE.match(s)
            if not m:
                raise Unsupported("define line: " + s[:80])
            name = m.group(2).strip('"')
            f = parse_function(mod, m, lines, i)
            i = f._end
            mod.funcs[name] = f
            continue
        if s.startswith("$") or s.startswith("uselistorder"):
            continue
        raise Unsupported("top-level: " + s[:60])
    for s, ln in pending_globals:
        parse_global(mod, s)
    return mod


def parse_global(mod, s):
    m = re.match(r'^@("[^"]+"|[-a-zA-Z$._0-9]+)\s*=\s*(.*)$', s)
    name = m.group(1).strip('"')
    rest = strip_meta(m.group(2))
    toks = tokenize(rest)
    p = P(toks, mod)
    const = False
    while p.peek()[1] in ("internal", "private", "external", "dso_local", "unnamed_addr", "local_unnamed_addr",
                          "linkonce_odr", "weak_odr", "hidden", "appending", "common", "weak", "available_externally",
                          "thread_local", "protected", "default", "dso_preemptable", "extern_weak", "linkonce"):
        p.next()
    k, v = p.next()
    if v == "constant":
        const = True
    elif v == "global":
        const = False
    else:
        return  # alias / ifunc etc.: ignored until used
    try:
        ty = p.type()
        init = None
        if not p.done() and p.peek()[1] != ",":
            init = p.operand(ty)
        g = Global(name, ty, init, const)
        if init is not None:
            cells = {}
            mod.flatten(ty, init, 0, cells)
            g.cells = cells
            g.size = mod.sizeof(ty)
        mod.globals[name] = g
    except Unsupported:
        mod.globals[name] = Global(name, None, None, False)


def parse_function(mod, m, lines, i):
    head = m.group(1)
    # return type = last type-looking thing in head after attributes
    toks = tokenize(head)
    p = P(toks, mod)
    while p.peek()[1] in ("dso_local", "internal", "linkonce_odr", "weak_odr", "hidden", "noundef", "signext",
                          "zeroext", "available_externally", "private", "weak", "external", "unnamed_addr",
                          "local_unnamed_addr", "fastcc", "nonnull", "noalias", "protected", "default", "inreg"):
        p.next()
    ret = p.type()
    params = []
    ptoks = tokenize(m.group(3))
    pp = P(ptoks, mod)
    while not pp.done():
        if pp.peek()[0] == "dots":
            raise Unsupported("varargs")
        ty = pp.type()
        name = None
        while not pp.done() and pp.peek()[1] != ",":
            k, v = pp.next()
            if k == "reg":
                name = unq(v)
            elif v == "(":
                while pp.next()[1] != ")":
                    pass
        pp.accept(",")
        params.append((ty, name))
    # unnamed params get numbered
    cnt = 0
    named = []
    for ty, name in params:
        if name is None:
            name = str(cnt)
        if re.fullmatch(r"\d+", name):
            cnt = int(name) + 1
        named.append((ty, name))
    f = Function(m.group(2).strip('"'), ret, named)
    f.attrs = m.group(4)
    cur = None
    n = len(lines)
    first = True
    while i < n:
        line = lines[i]
        i += 1
        s = line.strip()
        if s == "}":
            break
        if not s or s.startswith(";"):
            continue
        lm = re.match(r'^("[^"]+"|[-a-zA-Z$._0-9]+):', s)
        if lm and not s.startswith("%"):
            cur = lm.group(1).strip('"')
            f.blocks[cur] = []
            f.order.append(cur)
            first = False
            continue
        if first:
            # implicit entry label = next unnamed value number
            cur = str(len([1 for _, nme in named if re.fullmatch(r"\d+", nme)]))
            # entry block label number is count of unnamed params
            f.blocks[cur] = []
            f.order.append(cur)
            first = False
        if s.startswith("switch ") and s.endswith("["):
            # multi-line switch: join up to the closing bracket
            while i < n and not lines[i].strip().startswith("]"):
                line += " " + lines[i].strip()
                i += 1
            line += " ]"
            i += 1
        f.blocks[cur].append(parse_instr(line, mod, i))
    f._end = i
    return f
