"""Certified piecewise enclosures of transcendental functions as integer polynomials (DESIGN.md section 2.2).

All quantities are in raw fixed-point units: for a real function f the object enclosed is
    g(x) = 65536 * f(x / 65536)           (x a raw argument, g(x) the ideal raw result)
On a piece [lo, hi] with midpoint m and t = x - m:
    | g(m + t) - (A + B t + C t^2) / 2^SC |  <=  E / 2^SC        for every integer t with lo <= m + t <= hi
A, B, C are the Taylor coefficients g(m), g'(m), g''(m)/2 rounded to multiples of 2^-SC (mpmath, 50 digits), and
E bounds coefficient rounding plus the Lagrange remainder sup|g'''| * H^3 / 6 (H = max |t|), with sup|f'''| supplied
by a closed-form bound that is monotone between the piece ends.  Trusted: mpmath's values, Taylor's theorem, the
derivative bounds below.
"""
import mpmath as mp
from fractions import Fraction

mp.mp.dps = 50
SC = 32
ONE = 65536


def _ri(x):
    return int(mp.nint(x))


class Enclosure:
    def __init__(self, lo, hi, m, A, B, C, E):
        self.lo, self.hi, self.m, self.A, self.B, self.C, self.E = lo, hi, m, A, B, C, E


def enclose(f, d1, d2, sup_d3, lo, hi):
    """f, d1, d2: mpmath callables of the REAL argument; sup_d3(a, b) >= sup |f'''| on real interval [a, b]"""
    m = (lo + hi) // 2
    H = max(m - lo, hi - m)
    xm = mp.mpf(m) / ONE
    s = mp.mpf(2) ** SC
    A = _ri(ONE * f(xm) * s)
    if H == 0:
        Bc = Cc = 0              # single point: only the value is used (derivatives may not exist there, e.g. asin at 1)
    else:
        Bc = _ri(d1(xm) * s)
        Cc = _ri(d2(xm) / (2 * ONE) * s)
    if H == 0:
        rem = mp.mpf(0)          # a single point: no remainder (and the derivative bound may not exist there, e.g. asin at 1)
    else:
        s3 = sup_d3(mp.mpf(lo) / ONE, mp.mpf(hi) / ONE)
        rem = s3 / (mp.mpf(ONE) ** 2) * mp.mpf(H) ** 3 / 6 * s
    # coefficient rounding 1/2 each (times 1, H, H^2); mpmath error far below 1 unit of 2^-SC: +2 units of margin
    E = int(mp.ceil(rem + mp.mpf(1 + H + H * H) / 2)) + 2
    return Enclosure(lo, hi, m, A, Bc, Cc, E)


# ---------------------------------------------------------------------------------- functions
def sin_sup3(a, b):
    return mp.mpf(1)


SIN = (mp.sin, mp.cos, lambda x: -mp.sin(x), sin_sup3)
COS = (mp.cos, lambda x: -mp.sin(x), lambda x: -mp.cos(x), sin_sup3)


def tan_d3(x):
    t = mp.tan(x)
    s = 1 + t * t
    return 2 * s * s + 4 * t * t * s   # tan''' = 2 sec^4 + 4 tan^2 sec^2


def tan_sup3(a, b):
    # tan''' is even and increasing in |x| on (-pi/2, pi/2) (mod pi): the sup is at the end farther from the nearest
    # multiple of pi.  The caller guarantees that [a, b] contains no pole.
    return max(tan_d3(a), tan_d3(b))


TAN = (mp.tan, lambda x: 1 + mp.tan(x) ** 2, lambda x: 2 * mp.tan(x) * (1 + mp.tan(x) ** 2), tan_sup3)


def atan_sup3(a, b):
    # atan''' = (6x^2 - 2)/(1+x^2)^3 ; |.| <= 2 everywhere
    return mp.mpf(2)


ATAN = (mp.atan, lambda x: 1 / (1 + x * x), lambda x: -2 * x / (1 + x * x) ** 2, atan_sup3)


def asin_d3(x):
    return (1 + 2 * x * x) / (1 - x * x) ** mp.mpf(2.5)


def asin_sup3(a, b):
    # asin''' = (1+2x^2)/(1-x^2)^(5/2), even, increasing in |x| on (-1,1)
    return max(asin_d3(a), asin_d3(b))


ASIN = (mp.asin, lambda x: 1 / mp.sqrt(1 - x * x), lambda x: x / (1 - x * x) ** mp.mpf(1.5), asin_sup3)


def sqrt_sup3(a, b):
    # sqrt''' = 3/8 x^(-5/2), decreasing: sup at the left end (a > 0)
    return mp.mpf(3) / 8 * a ** mp.mpf(-2.5)


SQRT = (mp.sqrt, lambda x: 1 / (2 * mp.sqrt(x)), lambda x: -1 / (4 * x ** mp.mpf(1.5)), sqrt_sup3)


def pieces(lo, hi, size, align=True):
    """aligned pieces covering [lo, hi] inclusive"""
    out = []
    x = lo
    while x <= hi:
        if align:
            nxt = (x // size + 1) * size - 1
        else:
            nxt = x + size - 1
        out.append((x, min(nxt, hi)))
        x = min(nxt, hi) + 1
    return out


# ---------------------------------------------------------------------------------- z3 side
def poly_term(enc, x, W):
    """(A + B t + C t^2) as a W-bit signed term, t = x - m (x a 64-bit raw term)"""
    import z3
    t = z3.SignExt(W - 64, x) - z3.BitVecVal(enc.m, W)
    c = lambda v: z3.BitVecVal(v, W)
    return c(enc.A) + c(enc.B) * t + c(enc.C) * t * t


def piece_var(lo, hi, bits=10, name="t"):
    """symbolic raw argument restricted to [lo, hi] inside one aligned 2^bits block: x = Concat(const high bits, t).
    returns (x term (64 bit), [t], domain constraint on t)"""
    import z3
    assert lo >> bits == hi >> bits, "piece must lie in one aligned block"
    t = z3.BitVec(name, bits)
    x = z3.Concat(z3.BitVecVal((lo >> bits) & ((1 << (64 - bits)) - 1), 64 - bits), t)
    mask = (1 << bits) - 1
    dom = z3.And(z3.UGE(t, z3.BitVecVal(lo & mask, bits)), z3.ULE(t, z3.BitVecVal(hi & mask, bits)))
    return x, [t], dom


def within(enc, x, out, tol_num, W=80):
    """|out * 2^SC - poly(x)| <= tol_num - E   where tol_num is a W-bit term (tolerance in units of 2^-SC raw)
    returns the z3 Bool"""
    import z3
    p = poly_term(enc, x, W)
    o = z3.SignExt(W - 64, out) << SC
    d = o - p
    lim = tol_num - z3.BitVecVal(enc.E, W)
    return z3.And(lim >= 0, d <= lim, d >= -lim)
