"""Check driver: obligations, solving, replay against the real build, known findings, evidence."""
import json
import os
import sys
import time
import random
import traceback
import z3

from . import build as B
from . import encode as E
from . import solve as S
from .llparse import Unsupported

ROOT = B.ROOT
EVID = os.path.join(ROOT, "evidence")
REPLAYS = os.path.join(ROOT, "replays")
KNOWN = os.path.join(ROOT, "known_findings.json")

M = (1 << 63) - 2          # largest finite raw value
NAN = (1 << 63) - 1
INT64_MIN = -(1 << 63)


def BV(name, w=64):
    return z3.BitVec(name, w)


def val(v, w=64):
    return z3.BitVecVal(v, w)


def finite(x):
    return z3.And(x >= val(-M), x <= val(M))


def isnan_raw(x):
    return z3.Or(x == val(NAN), x == val(-NAN))


def sabs(x):
    return z3.If(x < 0, -x, x)


def sx(x, to):
    return z3.SignExt(to - x.size(), x) if to > x.size() else x


def zx(x, to):
    return z3.ZeroExt(to - x.size(), x) if to > x.size() else x


class Call:
    _n = 0

    def __init__(self, h, unit, args, opts=None, ir="S", std=None):
        Call._n += 1
        self.h, self.unit, self.args, self.opts, self.ir, self.std = h, h.units[unit], list(args), opts, ir, std
        self.int_mode = bool(opts is not None and opts.int_mode)
        if self.int_mode:
            self.out = z3.Int("OUT!%d!%s" % (Call._n, unit))
        else:
            self.out = z3.BitVec("OUT!%d!%s" % (Call._n, unit), B.WIDTH[self.unit.ret])
        self.res = None
        self.term = None

    def encode(self):
        if self.res is not None:
            return self.res
        mod = self.h.lower(self.ir, self.std)
        vals = []
        o = self.opts or E.Opts()
        for (n, k), a in zip(self.unit.params, self.args):
            if self.int_mode:
                if k in ("f32", "f64"):
                    raise Unsupported("fp parameter in INT mode")
                vals.append(E.IV(a, B.WIDTH[k]))
                continue
            if a.size() != B.WIDTH[k]:
                raise ValueError("argument width for %s.%s" % (self.unit.name, n))
            if k in ("f32", "f64"):
                if o.fp_mode == "real":
                    raise Unsupported("fp parameter in real mode")
                vals.append(z3.fpBVToFP(a, z3.Float32() if k == "f32" else z3.Float64()))
            else:
                vals.append(a)
        self.res = E.encode(mod, self.unit.sym, vals, o)
        r = self.res.ret
        if self.int_mode:
            r = r.t
        elif self.unit.ret in ("f32", "f64"):
            r = z3.fpToIEEEBV(r)
        self.term = r
        return self.res


class Ob:
    def __init__(self, name, kind, inputs, calls, assume, goal, ub=False, portfolio=None, timeout=None,
                 natives=None, note="", extra_asserts=(), expect_unsat=True, abstract=False, fallback=None,
                 comm_lemmas=True, also_ub=False, exact=None, magnitude=False, ub_filter=None, advisory=False):
        self.name, self.kind, self.inputs, self.calls = name, kind, list(inputs), list(calls)
        self.assume, self.goal, self.ub = assume, goal, ub
        self.portfolio, self.timeout, self.natives, self.note = portfolio, timeout, natives, note
        self.extra_asserts = list(extra_asserts)
        self.abstract, self.fallback, self.comm_lemmas = abstract, fallback, comm_lemmas
        self.advisory = advisory    # obligation beyond the property's stated domain (a lemma another property relies on): a
        #                             reproduced counterexample is reported as INCONCLUSIVE with a note, never as VIOLATION
        self.ub_filter = ub_filter  # optional predicate(kind, ir text, cond) selecting the UB sites this obligation covers
        self.magnitude = magnitude  # add |X|<2^p => |X*Y| <= |Y|*2^p lemma instances for abstracted products
        self.exact = exact          # optional exact concrete decision of the PROPERTY: f(inputs: {name: int}, outs: [int]) -> bool
        self.also_ub = also_ub      # value obligation that additionally requires "no UB site reachable" on its domain
        self.outcome = None
        self.query = None
        self.verdict = None      # 'discharged' | 'violation' | 'known' | 'inconclusive' | 'witnessed' | 'no-cex'
        self.detail = ""
        self.replay = None
        self.known_entry = None


DEFAULT_NATIVES = [("g++", "-O0"), ("g++", "-O2"), ("clang++-14", "-O0"), ("clang++-14", "-O2")]
UB_NATIVE = ("clang++-14", "-O0", ("-fsanitize=undefined,float-cast-overflow,bounds", "-fsanitize-trap=all",
                                     "-fno-sanitize-recover=all", "-D_GLIBCXX_ASSERTIONS"))


class Run:
    def __init__(self, pid, tier="quick", seed=0, only=None, pin=None):
        self.pid, self.tier, self.seed, self.only, self.pin = pid, tier, seed, only, pin
        self.rng = random.Random(seed)
        self.obs = []
        self.harnesses = {}
        self.assumptions = []
        self.functions = set()
        self.bounds = []
        self.outside = []
        self.t0 = time.time()
        self.messages = []
        self.known = [k for k in load_known() if k.get("property") == pid]
        self.exit_code = 0
        self.selfcheck = {"vectors": 0, "mismatches": 0}
        self.solver_time = 0.0
        self.extra_cov = {}
        self.level = "other"

    # ----------------------------------------------------------------- construction helpers
    def quick(self):
        return self.tier == "quick"

    def harness(self, tag, units, **kw):
        h = B.Harness("%s_%s" % (self.pid, tag), units, **kw)
        self.harnesses[tag] = h
        return h

    def call(self, h, unit, args, opts=None, ir="S", std=None):
        self.functions.add(unit)
        return Call(h, unit, args, opts, ir, std)

    def assume_note(self, s):
        if s not in self.assumptions:
            self.assumptions.append(s)

    def _add(self, ob):
        if self.only and not any(ob.name.startswith(o) for o in self.only):
            return ob
        self.obs.append(ob)
        return ob

    def verify(self, name, inputs, calls, assume, goal, **kw):
        return self._add(Ob(name, "verify", inputs, calls, assume, goal, **kw))

    def hunt(self, name, inputs, calls, assume, goal, **kw):
        return self._add(Ob(name, "hunt", inputs, calls, assume, goal, **kw))

    def witness(self, name, inputs, calls, assume, goal, **kw):
        """goal must be satisfiable together with assume (vacuity / reachability guard)"""
        return self._add(Ob(name, "witness", inputs, calls, assume, goal, **kw))

    def verify_noub(self, name, inputs, calls, assume, kind="verify", **kw):
        return self._add(Ob(name, kind, inputs, calls, assume, None, ub=True, **kw))

    def verify_noub_layered(self, name, inputs, mkcalls, assume, **kw):
        """'some UB site reachable' with the multiplier-free sufficient condition for signed-multiplication overflow first
        (unsat carries over), the exact condition as fallback.  mkcalls(opts_kwargs) -> list of Call"""
        def build(ab):
            calls = mkcalls(dict(mul_ovf="bits" if ab else "exact"))
            return Ob(name, "verify", inputs, calls, assume, None, ub=True, abstract=ab, **kw)
        ob = build(True)
        ob.fallback = lambda: build(False)
        return self._add(ob)

    def tightest_pieces(self, h, unit, pieces, ref, bound, k=8, stride=5):
        """piece SELECTION aid for the sampled (quick) tiers: the native build is evaluated on a coarse grid and the k pieces
        in which the result comes closest to (or beyond) its bound are returned.  Nothing is decided here - the selected
        pieces are then decided by the solver like every other piece; the grid only steers the sample towards the places
        where a change of the code would show first."""
        import math
        try:
            nat = h.native("g++", "-O2")
            xs, owner = [], []
            for pi, p in enumerate(pieces):
                lo, hi = p[0], p[1]
                step = max(1, min(stride, (hi - lo) // 4 or 1))
                for x in range(lo, hi + 1, step):
                    xs.append(x)
                    owner.append(pi)
            outs = nat.run([(unit, [B.to_unsigned(x, 64)]) for x in xs])
            worst = {}
            for x, pi, o in zip(xs, owner, outs):
                if isinstance(o, B.Died) or o is None:
                    m = -1e18
                else:
                    v = B.to_signed(o, 64)
                    try:
                        m = bound(x) - abs(v - ref(x))
                    except (ValueError, ZeroDivisionError, OverflowError):
                        continue
                worst[pi] = min(worst.get(pi, 1e18), m)
            order = sorted(worst, key=lambda pi: worst[pi])[:k]
            self.extra_cov.setdefault("grid_guided_selection", {})[unit] = {
                "grid_points": len(xs), "selected": [[pieces[pi][0], pieces[pi][1], round(worst[pi], 3)] for pi in order]}
            return [pieces[pi] for pi in order]
        except (B.BuildError, OSError):
            return []

    # ----------------------------------------------------------------- optimiser guard
    def tv_guard(self, h, units, dom=None, levels=("O2",), unroll=1, prefix="opt"):
        """the optimised code computes what the source computes: for each wrapper, clang's -O<n> IR (machine semantics) against
        the source-faithful IR on every input on which the source has no UB.  First with symbolic products / quotients as
        uninterpreted functions (verify), then with the real arithmetic as a capped hunt (a timeout there is `no counterexample`,
        not a failure).  A source-level proof cannot see a wrong function attribute or a transformation licensed by UB the
        source-level check missed; this does.  Models are replayed across g++/clang++ builds at -O0..-O3 and compared with
        each other."""
        s64 = z3.BitVecSort(64)
        SDIV, SREM = z3.Function("SDIV", s64, s64, s64), z3.Function("SREM", s64, s64, s64)
        SQ = z3.Function("SQRTD", z3.Float64(), z3.Float64())
        nat = [("g++", "-O0"), ("g++", "-O2"), ("g++", "-O3"), ("clang++-14", "-O0"), ("clang++-14", "-O1"), ("clang++-14", "-O2"),
               ("clang++-14", "-O3")]
        self.assume_note("optimiser guard (%s/*): clang -%s IR of each wrapper equals the source-faithful IR wherever the source "
                         "execution has no UB; optimised IR under machine semantics (flags ignored, no poison)" % (
                             prefix, ", -".join(levels)))
        for u in units:
            ins = [BV(n, B.WIDTH[k]) for n, k in u.params]
            D = dom(u, ins) if dom is not None else z3.And([v != val(INT64_MIN) for (n, k), v in zip(u.params, ins) if k == "fx"]
                                                           or [z3.BoolVal(True)])
            for lv in levels:
                name = "%s/%s/S-vs-%s" % (prefix, u.name, lv)

                def build(ab, u=u, ins=ins, D=D, lv=lv, name=name):
                    kw = dict(unroll=unroll, stubs={"sqrt": lambda ctx, args: SQ(args[0])})
                    if ab:
                        kw.update(mul_uf=True, div_uf=(SDIV, SREM), div_uf_all=True)
                    c1 = self.call(h, u.name, ins, opts=E.Opts(**kw), ir="S")
                    c2 = self.call(h, u.name, ins, opts=E.Opts(machine=True, track_ub=False, **kw), ir=lv)
                    c1.encode()
                    pre = z3.And(D, z3.Not(c1.res.ub_any()))
                    ob = Ob(name, "verify" if ab else "hunt", ins, [c1, c2], pre, c1.out == c2.out, abstract=ab,
                            comm_lemmas=False, portfolio=("z3", "cvc5") if ab else ("z3", "cvc5", "cvc5int"), timeout=60,
                            natives=nat, note="same result bits from the source-faithful IR and clang -%s output" % lv)
                    ob.cross_config = True
                    return ob
                ob = build(True)
                ob.fallback = lambda b=build: b(False)
                self._add(ob)

    # ----------------------------------------------------------------- known findings
    def known_for(self, ob):
        out = []
        for k in self.known:
            if k.get("kind") != "known":
                continue
            if ob.name == k["obligation"] or (k["obligation"].endswith("*") and ob.name.startswith(k["obligation"][:-1])):
                out.append(k)
        return out

    def region(self, k, ob):
        ns = {c.decl().name(): c for c in ob.inputs}
        ns.update(dict(And=z3.And, Or=z3.Or, Not=z3.Not, ULT=z3.ULT, UGE=z3.UGE, ULE=z3.ULE, UGT=z3.UGT, If=z3.If,
                       sabs=sabs, val=val, M=M, NAN=NAN, finite=finite, isnan=isnan_raw, Extract=z3.Extract,
                       SignExt=z3.SignExt, ZeroExt=z3.ZeroExt, BitVecVal=z3.BitVecVal, LShR=z3.LShR))
        return eval(k["region"], {"__builtins__": {}}, ns)

    # ----------------------------------------------------------------- build queries
    def build_query(self, ob, extra=None, tag=""):
        asserts = []
        subs = []
        unwind = []
        ubs = []
        sub = lambda e: z3.substitute(e, *subs) if subs else e
        for c in ob.calls:
            r = c.encode()
            # a later call may take an earlier call's result as argument: substitute progressively
            asserts.extend(sub(x) for x in r.assumes)
            if not z3.is_false(r.unwind):
                unwind.append(sub(r.unwind))
            ubs.extend((k, t, sub(cnd)) for k, t, cnd in r.ub if ob.ub_filter is None or ob.ub_filter(k, t, cnd))
            subs.append((c.out, sub(c.term)))
        ob._subs = list(subs)
        if ob.assume is not None:
            asserts.insert(0, sub(ob.assume))
        if ob.ub:
            bad = [cnd for _, _, cnd in ubs] + unwind
            if not bad:
                asserts.append(z3.BoolVal(False))
            else:
                asserts.append(z3.Or(bad))
        else:
            g = sub(ob.goal)
            if ob.kind == "witness":
                asserts.append(g)
            else:
                enc = [cnd for k, _, cnd in ubs if k.startswith("ENC:")]
                if getattr(ob, "enc_only", False):
                    # companion query: is any side condition of the fast-path encoding ("ENC:" sites: the inputs on which
                    # that encoding stops being exact) reachable on the obligation's domain?
                    asserts.append(z3.Or(enc) if enc else z3.BoolVal(False))
                else:
                    asserts.append(z3.Or([z3.Not(g)] + unwind +
                                         ([cnd for k, _, cnd in ubs if not k.startswith("ENC:")] if ob.also_ub else [])))
                    # the ENC sites are refuted by a companion obligation "<name>#enc" (created by the scheduler): kept out of
                    # the main query they cost nothing there, and on their own they are decided in a fraction of a second
                    ob._needs_enc = bool(enc) and ob.kind in ("verify", "hunt")
        asserts.extend(ob.extra_asserts)
        if extra is not None:
            asserts.append(extra)
        if ob.comm_lemmas and any((c.opts is not None and c.opts.mul_uf) for c in ob.calls):
            # commutativity instances for every abstracted product that occurs (valid for bvmul)
            if not E.lemma_selftest():
                raise Unsupported("multiplication lemma templates failed their self-test")
            for app in E.uf_apps(asserts):
                x, y = app.children()
                if not x.eq(y):
                    asserts.append(app == app.decl()(y, x))
                asserts.extend(E.mul_lemmas(app))
                if ob.magnitude:
                    asserts.extend(E.magnitude_lemmas(app))
        if self.pin:
            for c in ob.inputs:
                if c.decl().name() in self.pin:
                    asserts.append(c == mk_val(c, self.pin[c.decl().name()]))
        to = ob.timeout or (60 if self.quick() else 600)
        pf = ob.portfolio or ("z3", "cvc5")
        q = S.Query(ob.name + tag, asserts, inputs=ob.inputs, portfolio=pf, timeout=to)
        return q

    # ----------------------------------------------------------------- replay
    def eval_under(self, term, model_subs):
        return z3.simplify(z3.substitute(term, *model_subs)) if model_subs else z3.simplify(term)

    def replay_ob(self, ob, model):
        """returns (status, info)  status in reproduced | not-reproduced | unwinding | mismatch"""
        ms = [(c, mk_val(c, model.get(c.decl().name(), 0))) for c in ob.inputs]
        info = {"inputs": {c.decl().name(): show_val(c, model.get(c.decl().name(), 0)) for c in ob.inputs},
                "calls": [], "natives": {}}
        # what the encoding predicts (placeholders of earlier calls substituted by their encoded terms)
        esubs = list(ms)
        for c in ob.calls:
            enc_out = self.eval_under(c.term, esubs)
            argv = [self.eval_under(a, esubs) for a in c.args]
            info["calls"].append({"unit": c.unit.name, "cxx": c.unit.body,
                                  "args": [str(x.as_long()) if is_num(x) else str(x) for x in argv],
                                  "encoded_out": str(enc_out.as_long()) if is_num(enc_out) else str(enc_out)})
            r = c.res
            if not z3.is_false(r.unwind) and z3.is_true(self.eval_under(r.unwind, esubs)):
                return "unwinding", info
            if is_num(enc_out):
                esubs.append((c.out, enc_out))
            elif c is not ob.calls[-1] and not ob.ub:
                # value defined through fresh symbols (by-specification ops): take it from the solver's model if present
                pass

        def run_calls(cfg):
            """run the calls in order on one native build; later calls see the native results of earlier ones"""
            sub = list(ms)
            outs = []
            for c in ob.calls:
                argv = []
                for a, (pn, pk) in zip(c.args, c.unit.params):
                    e = self.eval_under(a, sub)
                    if not is_num(e):
                        return None, "argument of %s not determined: %s" % (c.unit.name, e)
                    argv.append(B.to_unsigned(e.as_long(), B.WIDTH[pk]))
                nat = c.h.native(cfg[0], cfg[1], cfg[2] if len(cfg) > 2 else (), std=c.std)
                out = nat.run([(c.unit.name, argv)])[0]
                outs.append(out)
                if isinstance(out, B.Died):
                    return outs, "died"
                if c.int_mode:
                    w = B.WIDTH[c.unit.ret]
                    sub.append((c.out, z3.IntVal(B.to_signed(out, w) if w > 1 else out)))
                else:
                    sub.append((c.out, z3.BitVecVal(out, c.out.size())))
            return outs, sub

        ub_mode = ob.ub
        if ob.also_ub and not ob.ub:
            for c in ob.calls:
                # sites tagged "ENC:" are not UB: they mark inputs on which a fast-path encoding is not exact; such a
                # model is decided by running the real code and evaluating the property itself
                if any((not k.startswith("ENC:")) and z3.is_true(self.eval_under(cnd, esubs)) for k, _, cnd in c.res.ub):
                    ub_mode = True
        if ob.also_ub and not ub_mode:
            info["enc_sites"] = [{"unit": c.unit.name, "site": k, "ir": t} for c in ob.calls for k, t, cnd in c.res.ub
                                 if z3.is_true(self.eval_under(cnd, esubs))]
        if ub_mode:
            sites = []
            for c in ob.calls:
                for kind, text, cnd in c.res.ub:
                    if z3.is_true(self.eval_under(cnd, esubs)):
                        sites.append({"unit": c.unit.name, "ub": kind, "ir": text})
            info["ub_sites"] = sites
            outs, st = run_calls(UB_NATIVE)
            info["natives"]["ubsan-trap"] = [repr(o) for o in (outs or [])] if outs is not None else st
            return ("reproduced" if st == "died" else "not-reproduced"), info
        reproduced = False
        if getattr(ob, "cross_config", False):
            # translation-validation obligations: the property is that every build gives the same bits; the model's
            # arguments are run on each native configuration and the results compared with each other
            allouts = {}
            for cfg in (ob.natives or DEFAULT_NATIVES):
                key = " ".join(cfg[:2])
                outs, st = run_calls(cfg)
                if outs is None:
                    return "mismatch", {"error": st}
                allouts[key] = [repr(o) if isinstance(o, B.Died) else str(o) for o in outs]
            info["natives"] = allouts
            vals = {tuple(v) for v in allouts.values()}
            return ("reproduced" if len(vals) > 1 else "not-reproduced"), info
        for cfg in (ob.natives or DEFAULT_NATIVES):
            key = " ".join(cfg[:2])
            outs, st = run_calls(cfg)
            if outs is None:
                return "mismatch", {"error": st}
            info["natives"][key] = [repr(o) if isinstance(o, B.Died) else str(o) for o in outs]
            if st == "died":
                reproduced = True  # the real code terminated the process
                info["natives"][key + " verdict"] = "process died"
                continue
            pre = self.eval_under(ob.assume, st) if ob.assume is not None else z3.BoolVal(True)
            if ob.exact is not None:
                # the SMT goal is a sufficient condition; the property itself is decided exactly on the concrete run
                ins_ = {c.decl().name(): (B.to_signed(model.get(c.decl().name(), 0), c.size()) if not z3.is_int(c)
                                          else model.get(c.decl().name(), 0)) for c in ob.inputs}
                ok = ob.exact(ins_, [B.to_signed(o, B.WIDTH[c.unit.ret]) for o, c in zip(outs, ob.calls)])
                info["natives"][key + " exact-property"] = str(ok)
                if not ok and not z3.is_false(pre):
                    reproduced = True
                continue
            g = self.eval_under(ob.goal, st)
            info["natives"][key + " goal"] = str(g)
            if z3.is_false(g) and not z3.is_false(pre):
                reproduced = True
        return ("reproduced" if reproduced else "not-reproduced"), info

    # ----------------------------------------------------------------- run
    def auto_selfcheck(self, max_units=24, nvec=6):
        """differential validation of the BV encoder on this run's own units: native g++ -O0 result == encoding on corner and
        VERIF_SEED-seeded arguments (inputs on which the encoding reports UB are skipped).  A mismatch voids the run."""
        seen, todo = set(), []
        for ob in self.obs:
            for c in ob.calls:
                o = c.opts
                plain = o is None or not (o.stubs or o.mul_uf or o.div_spec or o.div_uf or o.int_mode or o.loop_cut
                                          or o.fp_mode != "bits" or o.machine)
                key = (id(c.h), c.unit.name, c.ir, c.std)
                if not plain or key in seen or c.ir != "S" or not c.unit.params:
                    continue
                seen.add(key)
                todo.append(c)
        self.rng.shuffle(todo)
        corners = {64: [0, 1, -1, 65536, -65536, 102944, 205887, 1 << 30, (1 << 47) - 1, -(1 << 46), M, -M, NAN, 39322, 159744],
                   32: [0, 1, -1, 360, -360, 90, 2147483647, -2147483648, 65536], 16: [0, 1, -1, 360, 32767, -32768, 255],
                   8: [0, 1, -1, 127, -128, 90], 1: [0, 1]}
        by_h = {}
        for c in todo[:max_units]:
            vecs = []
            for _ in range(nvec):
                v = []
                for (n, k) in c.unit.params:
                    w = B.WIDTH[k]
                    if k in ("f32", "f64"):
                        x = self.rng.choice([0.0, 1.5, -2.25, 1e-3, 12345.678, -3.0e9, 2147483646.5, 1e20, float("inf")])
                        v.append(B.fp_bits_of(k, x))
                    elif self.rng.random() < 0.5:
                        v.append(B.to_unsigned(self.rng.choice(corners[w]), w))
                    else:
                        v.append(self.rng.randrange(0, 1 << min(w, self.rng.choice([8, 17, 33, 48, w]))))
                vecs.append(v)
            by_h.setdefault((c.h, c.opts, c.std), {}).setdefault(c.unit.name, []).extend(vecs)
        mism = 0
        for (h, o, std), vectors in by_h.items():
            mism += self.selfcheck_units(h, vectors, opts=o, std=std)
        return mism

    def execute(self):
        rc = self._execute()
        if os.environ.get("VERIF_NO_SELFCHECK") != "1" and rc != 1:
            # differential validation of the encoder on this run's units.  It runs after the obligations so that it can
            # never pre-empt a reproduced violation; a mismatch voids a run that would otherwise have passed.
            try:
                if self.auto_selfcheck():
                    print("INCONCLUSIVE property=%s: ENCODER-MISMATCH (the symbolic encoding disagrees with the native build "
                          "on a UB-free input; see the lines above)" % self.pid)
                    rc = 2
            except (Unsupported, B.BuildError) as e:
                print("INCONCLUSIVE property=%s: encoder self-check could not run: %s" % (self.pid, str(e)[:300]))
                rc = 2
            self.write_evidence()
        return rc

    def _execute(self):
        workdir = os.path.join(B.BUILD, "%s_smt" % self.pid)
        os.makedirs(workdir, exist_ok=True)
        todo = list(self.obs)
        self.solve_wall = 0.0
        rounds = 0
        while todo and rounds < 6:
            rounds += 1
            queries, owners = [], []
            for ob in todo:
                try:
                    ks = self.known_for(ob) if ob.kind in ("verify", "hunt") else []
                    if ks:
                        excl = z3.Not(z3.Or([self.region(k, ob) for k in ks]))
                        queries.append(self.build_query(ob, extra=excl))
                        owners.append((ob, "main"))
                        if not ob.abstract:
                            for i, k in enumerate(ks):
                                queries.append(self.build_query(ob, extra=self.region(k, ob), tag="#known%d" % i))
                                owners.append((ob, ("known", k)))
                    else:
                        queries.append(self.build_query(ob))
                        owners.append((ob, "main"))
                    if getattr(ob, "_needs_enc", False) and not getattr(ob, "_enc_done", False):
                        ob._enc_done = True
                        comp = Ob(ob.name + "#enc", "verify", ob.inputs, ob.calls, ob.assume, ob.goal, portfolio=ob.portfolio,
                                  timeout=ob.timeout, natives=ob.natives, exact=ob.exact, advisory=ob.advisory,
                                  comm_lemmas=ob.comm_lemmas, abstract=False,
                                  note="side conditions of the fast-path encoding used by %s are unreachable on its domain (a "
                                       "model is run on the real build and decided by the property itself)" % ob.name)
                        comp.enc_only = True
                        self.obs.insert(self.obs.index(ob) + 1, comp)
                        queries.append(self.build_query(comp))
                        owners.append((comp, "main"))
                except (Unsupported, B.BuildError) as e:
                    ob.verdict, ob.detail = "inconclusive", "%s: %s" % (type(e).__name__, str(e)[:1500])
            t = time.time()
            outs = S.solve_all(queries, workdir)
            self.solver_time += sum(o.t for o in outs)
            self.solve_wall += time.time() - t
            nxt = []
            for q, (ob, role), out in zip(queries, owners, outs):
                if role == "main":
                    ob.outcome, ob.query = out, q
                    if ob.abstract and out.status != "unsat":
                        # the abstraction (uninterpreted products/quotients) is only sound for `unsat`
                        fb = ob.fallback() if callable(ob.fallback) else ob.fallback
                        if fb is None:
                            ob.verdict, ob.detail = "inconclusive", "abstract query %s and no precise fallback" % out.status
                        elif isinstance(fb, list):
                            ob.verdict, ob.detail = "refined", "abstract query was %s; split into %d exact parts" % (out.status, len(fb))
                            idx = self.obs.index(ob)
                            for j, f2 in enumerate(fb):
                                self.obs.insert(idx + 1 + j, f2)
                                nxt.append(f2)
                        else:
                            ob.verdict, ob.detail = "refined", "abstract query was %s; decided by the next encoding" % out.status
                            fb.name = ob.name.split("#")[0] + "#" + (fb.tag if getattr(fb, "tag", None) else "precise")
                            idx = self.obs.index(ob)
                            self.obs.insert(idx + 1, fb)
                            nxt.append(fb)
                        continue
                    self.judge(ob, out)
                    if ob.verdict == "inconclusive" and ob.fallback is not None and ob.kind in ("verify", "hunt"):
                        # an exact encoding that gave no verdict (timeout / model that did not reproduce) may have a
                        # second exact encoding to try (INT <-> BV)
                        fb = ob.fallback() if callable(ob.fallback) else ob.fallback
                        if isinstance(fb, list):
                            # a case split: the obligation is replaced by obligations that together cover it
                            ob.verdict, ob.detail = "refined", "no verdict (%s); split into %d parts" % (ob.detail[:120], len(fb))
                            idx = self.obs.index(ob)
                            for j, f2 in enumerate(fb):
                                self.obs.insert(idx + 1 + j, f2)
                                nxt.append(f2)
                        elif fb is not None:
                            ob.verdict, ob.detail = "refined", "no verdict (%s); decided by the next encoding" % ob.detail[:120]
                            fb.name = ob.name.split("#")[0] + "#" + (fb.tag if getattr(fb, "tag", None) else "precise2")
                            idx = self.obs.index(ob)
                            self.obs.insert(idx + 1, fb)
                            nxt.append(fb)
                else:
                    self.judge_known(ob, role[1], out)
            todo = nxt
        return self.finish()

    def judge(self, ob, out):
        if out.status == "DISAGREE":
            ob.verdict, ob.detail = "inconclusive", "solver disagreement " + out.detail
            return
        if ob.kind == "witness":
            if out.status == "sat":
                ob.verdict = "witnessed"
            elif out.status == "unsat":
                ob.verdict, ob.detail = "inconclusive", "vacuous: reachability witness is unsat"
            else:
                # a vacuity guard that the solver could not answer in time does not invalidate the verify obligations
                ob.verdict, ob.detail = "witness-unknown", "witness " + out.status
            return
        if out.status == "unsat":
            ob.verdict = "discharged"
            return
        if out.status != "sat":
            if ob.kind == "hunt":
                ob.verdict, ob.detail = "no-cex", "no counterexample within %ss (not a proof)" % (ob.timeout or "")
            else:
                ob.verdict, ob.detail = "inconclusive", "solver %s %s" % (out.status, out.detail)
            return
        try:
            st, info = self.replay_ob(ob, out.model)
        except B.BuildError as e:
            ob.verdict, ob.detail = "inconclusive", "replay build failed: %s" % e
            return
        ob.replay = info
        if st == "reproduced" and ob.advisory:
            ob.verdict, ob.detail = "inconclusive", ("counterexample outside the property's stated domain (this obligation is a "
                                                    "lemma for another property): %s" % json.dumps(info.get("inputs")))
        elif st == "reproduced":
            ob.verdict = "violation"
        elif st == "unwinding":
            ob.verdict, ob.detail = "inconclusive", "unwinding bound too small for the model found"
        else:
            # a model that the real code does not confirm is typical for obligations with contract stubs (the stub may
            # take any value its contract allows).  Block that input point and ask again, a few times: a real
            # counterexample, if there is one, is usually next.
            tries = getattr(ob, "_retries", 0)
            if tries < 4 and ob.query is not None and ob.inputs:
                ob._retries = tries + 1
                block = z3.Or([c != mk_val(c, out.model.get(c.decl().name(), 0)) for c in ob.inputs])
                ob.extra_asserts.append(block)
                try:
                    q2 = self.build_query(ob, tag="#retry%d" % ob._retries)
                    out2 = S.run_one(q2, os.path.join(B.BUILD, "%s_smt" % self.pid))
                    self.solver_time += out2.t
                    ob.outcome, ob.query = out2, q2
                    return self.judge(ob, out2)
                except (Unsupported, B.BuildError):
                    pass
            ob.verdict, ob.detail = "inconclusive", "model did not reproduce on the real build (%s)" % st

    def judge_known(self, ob, k, out):
        rec = {"entry": k, "status": out.status}
        ob.__dict__.setdefault("known_results", []).append(rec)
        if out.status == "sat":
            try:
                st, info = self.replay_ob(ob, out.model)
            except B.BuildError as e:
                st, info = "error", {"error": str(e)}
            rec["replay"] = st
            rec["info"] = info
            if st == "reproduced":
                self.messages.append("KNOWN-FINDING: property=%s %s [%s; witness %s]" % (
                    self.pid, k["text"], ob.name, json.dumps(info.get("inputs"))))
        elif out.status == "unsat":
            self.messages.append("NOTE: known finding no longer reproduces (%s): %s" % (ob.name, k["text"]))

    def finish(self):
        viol = [o for o in self.obs if o.verdict == "violation"]
        inc = [o for o in self.obs if o.verdict == "inconclusive"]
        for m in self.messages:
            print(m)
        os.makedirs(os.path.join(REPLAYS, self.pid), exist_ok=True)
        for o in viol:
            path = os.path.join(REPLAYS, self.pid, safe(o.name) + ".json")
            with open(path, "w") as fh:
                json.dump({"property": self.pid, "obligation": o.name, "kind": "ub" if o.ub else "value",
                           "note": o.note, "replay": o.replay,
                           "pin": {k: v for k, v in (o.outcome.model or {}).items()
                                   if k in {c.decl().name() for c in o.inputs}}}, fh, indent=1, default=str)
            print("VIOLATION property=%s replay=%s" % (self.pid, path))
            print("  obligation %s: %s" % (o.name, o.note))
            print("  inputs %s" % json.dumps(o.replay.get("inputs")))
            for c in o.replay.get("calls", []):
                print("  call %s(%s) encoded_out=%s" % (c["unit"], ", ".join(c["args"]), c["encoded_out"]))
            for k, v in o.replay.get("natives", {}).items():
                print("  native %s: %s" % (k, v))
            for s in o.replay.get("ub_sites", [])[:6]:
                print("  ub-site %s: %s   [%s]" % (s["unit"], s["ub"], s["ir"]))
        for o in inc:
            print("INCONCLUSIVE property=%s obligation=%s: %s" % (self.pid, o.name, o.detail))
        self.write_evidence()
        if viol:
            return 1
        if inc:
            return 2
        return 0

    # ----------------------------------------------------------------- evidence
    def write_evidence(self):
        os.makedirs(EVID, exist_ok=True)
        obs = self.obs
        ver = [o for o in obs if o.kind == "verify" and o.verdict != "refined"]
        hunts = [o for o in obs if o.kind == "hunt"]
        wit = [o for o in obs if o.kind == "witness"]
        recs = []
        for o in obs:
            r = {"obligation": o.name, "kind": o.kind, "what": "no-UB" if o.ub else "value",
                 "units": sorted({c.unit.name for c in o.calls}), "verdict": o.verdict,
                 "solver": o.outcome.solver if o.outcome else None,
                 "time_s": round(o.outcome.t, 3) if o.outcome else None, "note": o.note,
                 "cap_s": o.query.timeout if o.query is not None else None}
            if o.detail:
                r["detail"] = o.detail
            if o.outcome is not None and o.outcome.status == "sat":
                r["model"] = {k: str(v) for k, v in o.outcome.model.items()}
                if o.replay and o.replay.get("enc_sites"):
                    r["enc_sites"] = o.replay["enc_sites"]
            if getattr(o, "known_results", None):
                r["known"] = [{"text": k["entry"]["text"], "status": k["status"], "replay": k.get("replay")}
                              for k in o.known_results]
            recs.append(r)
        nontriv = len({o.name for o in obs if o.verdict in ("discharged", "witnessed", "violation", "no-cex")
                       and o.outcome is not None and o.outcome.solver is not None})
        cov = {
            "explanation": "bounded symbolic checking of clang-14 LLVM IR of the real functions: every obligation is an "
                           "SMT query over all values of the listed inputs inside the stated bound; verify = expected "
                           "unsat; hunt = capped search (timeout is not a proof); witness = reachability/vacuity guard "
                           "(expected sat).",
            "obligations": len(ver), "discharged": len([o for o in ver if o.verdict == "discharged"]),
            "hunts": len(hunts), "hunts_unsat": len([o for o in hunts if o.verdict == "discharged"]),
            "hunts_no_cex": len([o for o in hunts if o.verdict == "no-cex"]),
            "witnesses": len(wit), "witnesses_sat": len([o for o in wit if o.verdict == "witnessed"]),
            "evaluations": len(obs), "distinct_nontrivial": nontriv,
            "rule": "one evaluation = one SMT obligation sent to the solver portfolio; non-trivial = a solver returned a "
                    "definite verdict for it (distinct obligation names counted)",
            "functions_encoded": sorted(self.functions),
            "bounds": self.bounds, "outside_bounds": self.outside,
            "solver_time_s": round(self.solver_time, 2), "solve_wall_s": round(getattr(self, "solve_wall", 0.0), 2),
            "solver_versions": solver_versions(),
            "encoder_selfcheck": self.selfcheck,
            "samples": recs[:40],
            "all_obligations": [{"o": r["obligation"], "k": r["kind"], "v": r["verdict"], "s": r["solver"],
                                 "t": r["time_s"], "cap": r.get("cap_s")} for r in recs],
            "checker_cmd": "./check %s --tier %s" % (self.pid, self.tier),
            "trusted_base": ["clang-14 front end (C++ -> LLVM IR)", "vf/llparse.py + vf/encode.py (validated each run "
                             "by differential execution against g++/clang++ builds)", "z3 / cvc5"],
            "known_findings_reported": [m for m in self.messages if m.startswith("KNOWN-FINDING")],
        }
        cov.update(self.extra_cov)
        if self.level == "translation_validation":
            cov.setdefault("programs", len([o for o in obs if len(o.calls) >= 2]))
            cov["disagreements_checked"] = len([o for o in obs if o.outcome is not None and o.outcome.status == "sat"
                                                and o.kind != "witness"])
        ev = {"property_id": self.pid, "tier": self.tier, "seed": self.seed, "level": self.level, "coverage": cov,
              "assumptions": self.assumptions, "wall_s": round(time.time() - self.t0, 2),
              "violations": len([o for o in obs if o.verdict == "violation"])}
        with open(os.path.join(EVID, self.pid + ".json"), "w") as fh:
            json.dump(ev, fh, indent=1, default=str)

    # ----------------------------------------------------------------- encoder self-check (differential)
    def selfcheck_units(self, h, vectors, opts=None, ir="S", natives=(("g++", "-O0"),), std=None, uf_eval=None,
                        skip_stubbed=False):
        """vectors: {unit: [[raw args]...]}.  Native result must equal the encoding wherever the encoding reports no UB.
        returns number of mismatches (any mismatch => caller must refuse to give a verdict)."""
        mism = 0
        mod = h.lower(ir, std)
        for uname, vecs in vectors.items():
            u = h.units[uname]
            imode = bool(opts is not None and opts.int_mode)
            if imode:
                ins = [z3.Int("sc_" + n) for n, _ in u.params]
            else:
                ins, _ = B.sym_args(u, "sc_")
            c = Call(h, uname, ins, opts, ir, std)
            r = c.encode()
            for cfg in natives:
                nat = h.native(cfg[0], cfg[1], std=std)
                outs = nat.run([(uname, [B.to_unsigned(x, B.WIDTH[k]) for x, (_, k) in zip(v, u.params)]) for v in vecs])
                for v, out in zip(vecs, outs):
                    ms = [(cst, mk_val(cst, x)) for cst, x in zip(ins, v)]
                    ubhit = any(z3.is_true(self.eval_under(cnd, ms)) for _, _, cnd in r.ub)
                    if not z3.is_false(r.unwind) and z3.is_true(self.eval_under(r.unwind, ms)):
                        continue
                    self.selfcheck["vectors"] += 1
                    if ubhit:
                        continue
                    e = self.eval_under(c.term, ms)
                    if uf_eval:
                        e = eval_ufs(e, uf_eval)
                    exp = None
                    if is_num(e):
                        exp = B.to_unsigned(e.as_long(), B.WIDTH[u.ret])
                    if isinstance(out, B.Died) or exp is None or exp != out:
                        if r.fresh and exp is None:
                            continue  # value defined through fresh symbols (by-specification ops): not evaluable
                        mism += 1
                        self.selfcheck["mismatches"] += 1
                        print("ENCODER-MISMATCH unit=%s args=%s native(%s)=%r encoding=%s" % (uname, v, cfg, out, e))
        return mism


def eval_ufs(e, table, rounds=8):
    """replace applications f(numerals) of the listed uninterpreted functions by python-computed values (encoder self-check
    only: lets a contract stub be executed concretely)"""
    for _ in range(rounds):
        apps = []
        seen, stack = set(), [e]
        while stack:
            t = stack.pop()
            if t.get_id() in seen:
                continue
            seen.add(t.get_id())
            if z3.is_app(t):
                if t.decl().name() in table and all(is_num(ch) for ch in t.children()):
                    apps.append(t)
                stack.extend(t.children())
        if not apps:
            break
        subs = []
        for t in apps:
            v = table[t.decl().name()](*[ch.as_long() for ch in t.children()])
            subs.append((t, z3.IntVal(v) if z3.is_int(t) else z3.BitVecVal(v, t.size())))
        e = z3.simplify(z3.substitute(e, *subs))
    return e


def is_num(e):
    return z3.is_bv_value(e) or z3.is_int_value(e)


def mk_val(c, v):
    if z3.is_int(c):
        return z3.IntVal(v)
    return z3.BitVecVal(v, c.size())


def show_val(c, v):
    if z3.is_int(c):
        return str(v)
    return to_s(v, c.size())


def to_s(v, w):
    return str(B.to_signed(v, w)) if w > 1 else str(v)


def safe(s):
    return "".join(ch if ch.isalnum() or ch in "-_." else "_" for ch in s)


_KNOWN = None


def load_known():
    global _KNOWN
    if _KNOWN is None:
        try:
            _KNOWN = json.load(open(KNOWN))["findings"]
        except FileNotFoundError:
            _KNOWN = []
    return _KNOWN


_VERS = None


def solver_versions():
    global _VERS
    if _VERS is None:
        import subprocess
        v = {}
        for n, cmd in (("z3", [S.Z3NEW, "--version"]), ("cvc5", [S.CVC5, "--version"]), ("clang", [B.CLANG, "--version"])):
            try:
                v[n] = subprocess.run(cmd, stdout=subprocess.PIPE, text=True).stdout.split("\n")[0]
            except Exception as e:
                v[n] = "?"
        _VERS = v
    return _VERS
